package whispertool

// Shared harness helpers: layouts, symbolic file images, reference arithmetic.

// vrtLayouts: the layout families of DESIGN section 3 (every entry accepted by the real
// validation; parsed by the real parser).
func vrtLayoutList() []string {
	if vrt.Tier() == 1 {
		return []string{
			"1s:1s", "1s:2s", "5s:15s", "60s:180s", "1s:2s,2s:6s", "1s:3s,3s:9s", "2s:6s,6s:12s", "60s:120s,120s:360s",
			"1s:6s", "7s:35s", "1s:4s,4s:8s", "1s:2s,2s:4s,4s:8s",
		}
	}
	return []string{"1s:1s", "1s:2s", "5s:15s", "60s:180s", "1s:2s,2s:6s", "1s:3s,3s:9s", "2s:6s,6s:12s", "60s:120s,120s:360s"}
}

// vrtChooseHeaderSmall: a reduced family for the path-hungry harnesses in the quick tier.
func vrtChooseHeaderSmall(method AggregationMethod, xff float32) *Header {
	if vrt.Tier() == 1 {
		return vrtChooseHeaderFrom([]string{"1s:2s", "5s:15s", "1s:2s,2s:6s", "60s:120s,120s:360s", "1s:3s,3s:9s", "1s:2s,2s:4s,4s:8s"}, method, xff)
	}
	return vrtChooseHeaderFrom([]string{"1s:2s", "5s:15s", "1s:2s,2s:6s", "60s:120s,120s:360s"}, method, xff)
}

func vrtChooseHeaderFrom(ls []string, method AggregationMethod, xff float32) *Header {
	txt := ls[vrt.Choose("layout", len(ls))]
	list, err := ParseArchiveInfoList(txt)
	if err != nil {
		panic("harness layout rejected: " + txt)
	}
	h, err := NewHeader(method, xff, list)
	if err != nil {
		panic("harness layout rejected: " + txt)
	}
	return h
}

func vrtChooseHeader(method AggregationMethod, xff float32) *Header {
	ls := vrtLayoutList()
	txt := ls[vrt.Choose("layout", len(ls))]
	list, err := ParseArchiveInfoList(txt)
	if err != nil {
		panic("harness layout rejected: " + txt)
	}
	h, err := NewHeader(method, xff, list)
	if err != nil {
		panic("harness layout rejected: " + txt)
	}
	return h
}

// vrtSlots holds the symbolic content of one file image: per archive, per physical slot,
// the stored time and value.
type vrtSlots struct {
	t [][]Timestamp
	v [][]Value
}

// vrtSymbolicImage builds header bytes followed by arbitrary slots.
func vrtSymbolicImage(h *Header, tag string) ([]byte, *vrtSlots) {
	img := h.AppendTo(nil)
	sl := &vrtSlots{}
	for ai, a := range h.archiveInfoList {
		n := int(a.numberOfPoints)
		ts := make([]Timestamp, n)
		vs := make([]Value, n)
		for j := 0; j < n; j++ {
			ts[j] = Timestamp(vrt.U32(vrt.N(vrt.N(tag+"T", ai), j)))
			if j == 0 {
				// base interval: zero (never written) or any multiple of the step
				vrt.Assume(int64(ts[j])%int64(a.secondsPerPoint) == 0)
			}
			vs[j] = Value(vrt.F64(vrt.N(vrt.N(tag+"V", ai), j)))
			p := Point{Time: ts[j], Value: vs[j]}
			img = p.AppendTo(img)
		}
		sl.t = append(sl.t, ts)
		sl.v = append(sl.v, vs)
	}
	return img, sl
}

// vrtOpenImage writes the image to a (modelled or real) file and opens it with the real Open.
func vrtOpenImage(name string, img []byte) *Whisper {
	path := vrt.TempFile(name, img)
	w, err := Open(path)
	if err != nil {
		panic("harness image rejected by Open: " + err.Error())
	}
	return w
}

func refFloorDiv(a, b int64) int64 {
	q := a / b
	if a%b != 0 {
		if (a < 0) != (b < 0) {
			q--
		}
	}
	return q
}

func refFloorMod(a, b int64) int64 {
	m := a % b
	if m < 0 {
		m += b
	}
	return m
}

// refIndex: ring slot of interval t relative to base b (the classic format rule), in int64.
func refIndex(b, t Timestamp, step Duration, n uint32) int {
	return int(refFloorMod(refFloorDiv(int64(t)-int64(b), int64(step)), int64(n)))
}

func refAlign(t Timestamp, step Duration) Timestamp {
	return Timestamp(refFloorDiv(int64(t), int64(step)) * int64(step))
}

// vrtAssumeClock: T2 of DESIGN section 3: the clock is any uint32 instant that is at least one
// maximum retention (plus two coarsest steps) after the epoch and at least four coarsest steps
// before the end of the 32-bit range.
func vrtAssumeClock(h *Header, now Timestamp) {
	last := h.archiveInfoList[len(h.archiveInfoList)-1]
	vrt.Assume(int64(now) <= 0xffffffff-4*int64(last.secondsPerPoint))
	vrt.Assume(int64(now) >= int64(h.maxRetention)+2*int64(last.secondsPerPoint))
}

// vrtAssumeNear: T1 of DESIGN section 3: instant t (if non-zero) lies within 2^30 - 2^20 seconds of
// the clock, so that any two instants of one scenario (and their aligned neighbours one
// retention away) differ by less than 2^31 - the range of the int32 Duration type.
func vrtAssumeNear(h *Header, now, t Timestamp) {
	if t != 0 {
		d := int64(now) - int64(t)
		vrt.Assume(d <= 0x3fffffff-0x100000)
		vrt.Assume(d >= -(0x3fffffff - 0x100000))
	}
}

// vrtAssumeInv: the per-archive state invariant: base 0 (never written) or aligned base and
// every slot either 0 or holding an aligned time that belongs to that slot.
func vrtAssumeInv(h *Header, sl *vrtSlots) {
	for ai, a := range h.archiveInfoList {
		b := sl.t[ai][0]
		if b == 0 {
			for j := 1; j < int(a.numberOfPoints); j++ {
				vrt.Assume(sl.t[ai][j] == 0)
			}
			continue
		}
		vrt.Assume(int64(b)%int64(a.secondsPerPoint) == 0)
		for j := 1; j < int(a.numberOfPoints); j++ {
			tj := sl.t[ai][j]
			if tj != 0 {
				vrt.Assume(int64(tj)%int64(a.secondsPerPoint) == 0)
				vrt.Assume(refIndex(b, tj, a.secondsPerPoint, a.numberOfPoints) == j)
			}
		}
	}
}

// vrtInvImage builds a file image satisfying the state invariant by construction (DESIGN
// section 2: aligned instants are presented multiplicatively): each archive is either never
// written (all slots zero) or has base B = kB*S != 0 and every slot j holds 0 or the time
// B + (j + N*lap_j)*S of some lap of the ring; values are arbitrary bit patterns.
// All stored times lie within T1 distance of the clock.
func vrtInvImage(h *Header, tag string, now Timestamp) ([]byte, *vrtSlots) {
	img := h.AppendTo(nil)
	sl := &vrtSlots{}
	for ai, a := range h.archiveInfoList {
		n := int(a.numberOfPoints)
		s := int64(a.secondsPerPoint)
		ts := make([]Timestamp, n)
		vs := make([]Value, n)
		written := vrt.Choose(vrt.N(tag+"written", ai), 2) == 1
		var b int64
		if written {
			kb := vrt.U32(vrt.N(tag+"kB", ai))
			b = int64(kb) * s
			vrt.Assume(b > 0)
			vrt.Assume(b <= 0xffffffff)
			vrtAssumeNear(h, now, Timestamp(b))
		}
		for j := 0; j < n; j++ {
			vs[j] = Value(vrt.F64(vrt.N(vrt.N(tag+"V", ai), j)))
			if !written {
				ts[j] = 0
			} else if j == 0 {
				ts[j] = Timestamp(b)
			} else {
				lap := int64(vrt.I32(vrt.N(vrt.N(tag+"lap", ai), j)))
				empty := vrt.Bool(vrt.N(vrt.N(tag+"empty", ai), j))
				t := b + (int64(j)+int64(n)*lap)*s
				vrt.Assume(t > 0)
				vrt.Assume(t <= 0xffffffff)
				vrtAssumeNear(h, now, Timestamp(t))
				ts[j] = Timestamp(vrt.IteU32(empty, 0, uint32(t)))
			}
			p := Point{Time: ts[j], Value: vs[j]}
			img = p.AppendTo(img)
		}
		sl.t = append(sl.t, ts)
		sl.v = append(sl.v, vs)
	}
	return img, sl
}

// vrtInstant: an arbitrary uint32 instant presented multiplicatively with respect to the
// layout's step chain (DESIGN section 2): t = k*S_top + sum d_i*S_i + m with 0 <= d_i < r_i,
// 0 <= m < S_0, so that alignment to any archive step is a syntactic operation.
func vrtInstant(h *Header, name string) Timestamp {
	al := h.archiveInfoList
	top := len(al) - 1
	k := vrt.U32(name + "_k")
	t := int64(k) * int64(al[top].secondsPerPoint)
	for i := top - 1; i >= 0; i-- {
		r := int64(al[i+1].secondsPerPoint / al[i].secondsPerPoint)
		d := vrt.U32(vrt.N(name+"_d", i))
		vrt.Assume(int64(d) < r)
		t += int64(d) * int64(al[i].secondsPerPoint)
	}
	s0 := int64(al[0].secondsPerPoint)
	if s0 > 1 {
		m := vrt.U32(name + "_m")
		vrt.Assume(int64(m) < s0)
		t += int64(m)
	}
	vrt.Assume(t <= 0xffffffff)
	return Timestamp(t)
}
