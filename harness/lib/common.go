package whispertool

// Shared harness helpers: layouts, symbolic file images, reference arithmetic.

// vrtLayouts: the layout families of DESIGN section 3 (every entry accepted by the real
// validation; parsed by the real parser).
func vrtLayoutList() []string {
	if vrt.Tier() == 1 {
		return []string{
			"1s:1s", "1s:2s", "1s:6s", "7s:35s", "60s:240s", "3600s:21600s",
			"1s:2s,2s:6s", "1s:3s,3s:9s", "2s:6s,6s:12s", "60s:120s,120s:360s", "1s:4s,4s:8s", "1s:4s,2s:10s", "5s:30s,20s:80s",
			"1s:2s,2s:4s,4s:8s", "1s:3s,3s:9s,9s:18s", "1s:4s,2s:10s,10s:30s",
		}
	}
	return []string{"1s:1s", "1s:2s", "5s:15s", "60s:180s", "1s:2s,2s:6s", "1s:3s,3s:9s", "2s:6s,6s:12s", "60s:120s,120s:360s"}
}

func vrtChooseHeader(method AggregationMethod, xff float32) *Header {
	ls := vrtLayoutList()
	txt := ls[vrt.Choose("layout", len(ls))]
	list, err := ParseArchiveInfoList(txt)
	if err != nil {
		panic("harness layout rejected: " + txt)
	}
	h, err := NewHeader(method, xff, list)
	if err != nil {
		panic("harness layout rejected: " + txt)
	}
	return h
}

// vrtSlots holds the symbolic content of one file image: per archive, per physical slot,
// the stored time and value.
type vrtSlots struct {
	t [][]Timestamp
	v [][]Value
}

// vrtSymbolicImage builds header bytes followed by arbitrary slots.
func vrtSymbolicImage(h *Header, tag string) ([]byte, *vrtSlots) {
	img := h.AppendTo(nil)
	sl := &vrtSlots{}
	for ai, a := range h.archiveInfoList {
		n := int(a.numberOfPoints)
		ts := make([]Timestamp, n)
		vs := make([]Value, n)
		for j := 0; j < n; j++ {
			ts[j] = Timestamp(vrt.U32(vrt.N(vrt.N(tag+"T", ai), j)))
			vs[j] = Value(vrt.F64(vrt.N(vrt.N(tag+"V", ai), j)))
			p := Point{Time: ts[j], Value: vs[j]}
			img = p.AppendTo(img)
		}
		sl.t = append(sl.t, ts)
		sl.v = append(sl.v, vs)
	}
	return img, sl
}

// vrtOpenImage writes the image to a (modelled or real) file and opens it with the real Open.
func vrtOpenImage(name string, img []byte) *Whisper {
	path := vrt.TempFile(name, img)
	w, err := Open(path)
	if err != nil {
		panic("harness image rejected by Open: " + err.Error())
	}
	return w
}

func refFloorDiv(a, b int64) int64 {
	q := a / b
	if a%b != 0 {
		if (a < 0) != (b < 0) {
			q--
		}
	}
	return q
}

func refFloorMod(a, b int64) int64 {
	m := a % b
	if m < 0 {
		m += b
	}
	return m
}

// refIndex: ring slot of interval t relative to base b (the classic format rule), in int64.
func refIndex(b, t Timestamp, step Duration, n uint32) int {
	return int(refFloorMod(refFloorDiv(int64(t)-int64(b), int64(step)), int64(n)))
}

func refAlign(t Timestamp, step Duration) Timestamp {
	return Timestamp(refFloorDiv(int64(t), int64(step)) * int64(step))
}

// vrtAssumeClock: T1/T2 of DESIGN section 3: now < 2^31 and now >= maxRetention + coarsest step.
func vrtAssumeClock(h *Header, now Timestamp) {
	last := h.archiveInfoList[len(h.archiveInfoList)-1]
	vrt.Assume(int64(now) <= 0x7fffffff-4*int64(last.secondsPerPoint))
	vrt.Assume(int64(now) >= int64(h.maxRetention)+2*int64(last.secondsPerPoint))
}

// vrtAssumeInv: the per-archive state invariant: base 0 (never written) or aligned base and
// every slot either 0 or holding an aligned time that belongs to that slot.
func vrtAssumeInv(h *Header, sl *vrtSlots) {
	for ai, a := range h.archiveInfoList {
		b := sl.t[ai][0]
		if b == 0 {
			for j := 1; j < int(a.numberOfPoints); j++ {
				vrt.Assume(sl.t[ai][j] == 0)
			}
			continue
		}
		vrt.Assume(int64(b)%int64(a.secondsPerPoint) == 0)
		for j := 1; j < int(a.numberOfPoints); j++ {
			tj := sl.t[ai][j]
			if tj != 0 {
				vrt.Assume(int64(tj)%int64(a.secondsPerPoint) == 0)
				vrt.Assume(refIndex(b, tj, a.secondsPerPoint, a.numberOfPoints) == j)
			}
		}
	}
}
