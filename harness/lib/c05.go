package whispertool

import "github.com/hnakamur/filebuffer"

// C05 — Sync persistence: the file's bytes change only during Sync; after Sync the disk holds
// exactly the handle's state; length and header never change.

func vrtC05Op(w *Whisper, h *Header, now Timestamp) {
	na := len(h.archiveInfoList)
	switch vrt.Choose("op", 4) {
	case 0:
		t := vrtInstant(h, "t")
		vrtAssumeNear(h, now, t)
		_ = w.UpdatePointForArchive(-1+vrt.Choose("id", na+1), t, Value(vrt.F64("v")), now)
	case 1:
		pts := []Point{{vrtInstant(h, "t0"), Value(vrt.F64("v0"))}, {vrtInstant(h, "t1"), Value(vrt.F64("v1"))}}
		vrtAssumeNear(h, now, pts[0].Time)
		vrtAssumeNear(h, now, pts[1].Time)
		_ = w.UpdatePointsForArchive(pts, -1+vrt.Choose("id", na+1), now)
	case 2:
		_, _ = w.FetchFromArchive(vrt.Choose("id", na), vrtInstant(h, "from"), vrtInstant(h, "until"), now)
	case 3:
		_, _ = w.GetAllRawUnsortedPoints(vrt.Choose("id", na))
	}
}

// VerifC05_Frame: any operation other than Sync, followed by dropping the handle, leaves the
// file exactly as it was (every abandonment point between Syncs).
func VerifC05_Frame() {
	h := vrtChooseHeaderFrom([]string{"1s:2s", "5s:15s", "1s:2s,2s:6s"}, Sum, 0.5)
	now := vrtInstant(h, "now")
	vrtAssumeClock(h, now)
	img, _ := vrtInvImage(h, "s", now)
	path := vrt.TempFile("c05.wsp", img)
	w, err := Open(path)
	vrt.Assume(err == nil)
	vrt.Reach("pre")
	vrtC05Op(w, h, now)
	vrt.Assert(vrt.DiskWrites(path) == 0, "C05.frame no disk write outside Sync (before close)")
	_ = w.Close()
	vrt.Assert(vrt.DiskWrites(path) == 0, "C05.frame Close does not flush")
	disk := vrt.ReadFile(path)
	vrt.Assert(len(disk) == len(img), "C05.frame file length unchanged")
	for i := range img {
		vrt.Assert(disk[i] == img[i], "C05.frame unsynced change stays off disk")
	}
}

// VerifC05_Sync: after a successful Sync a fresh handle observes exactly the live handle's
// state; header bytes and file length are unchanged.
func VerifC05_Sync() {
	h := vrtChooseHeaderFrom([]string{"1s:2s", "5s:15s", "1s:2s,2s:6s"}, Sum, 0.5)
	now := vrtInstant(h, "now")
	vrtAssumeClock(h, now)
	img, _ := vrtInvImage(h, "s", now)
	path := vrt.TempFile("c05s.wsp", img)
	w, err := Open(path)
	vrt.Assume(err == nil)
	vrt.Reach("pre")
	vrtC05Op(w, h, now)
	live := vrtRawSlots(w, h)
	vrt.Assert(w.Sync() == nil, "C05.sync succeeds")
	vrt.Assert(w.Close() == nil, "C05.sync close")
	disk := vrt.ReadFile(path)
	vrt.Assert(len(disk) == len(img), "C05.fixed file length never changes")
	hs := int(h.Size())
	for i := 0; i < hs; i++ {
		vrt.Assert(disk[i] == img[i], "C05.fixed header bytes never change")
	}
	w2, err := Open(path)
	vrt.Assert(err == nil, "C05.reopen succeeds")
	re := vrtRawSlots(w2, h)
	for ai := range live.t {
		for k := range live.t[ai] {
			vrt.Assert(re.t[ai][k] == live.t[ai][k], "C05.sync reopened handle sees the synced state (time)")
			vrt.Assert(vrt.SameBits(float64(re.v[ai][k]), float64(live.v[ai][k])), "C05.sync reopened handle sees the synced state (value)")
		}
	}
	vrt.Assert(w2.Header().ArchiveInfoList().Equal(h.archiveInfoList), "C05.reopen same layout")
}

// VerifC05_Pages ("E-pages"): the same persistence obligations with the REAL filebuffer code
// (page map, read/dirty bitsets, copying, dirty-range flushing) executed from SSA on pages of
// 16, 20 or 32 bytes, so that 12-byte slots straddle page boundaries and the last page is
// short; only the preadv/pwritev system calls are modelled.  It checks that the dependency's
// real ReadAt/WriteAt/Flush refine the flat contract the other harnesses assume.
func VerifC05_Pages() {
	h := vrtChooseHeaderFrom([]string{"1s:3s,3s:9s", "5s:15s"}, Sum, 0.5)
	now := vrtInstant(h, "now")
	vrtAssumeClock(h, now)
	img, pre := vrtInvImage(h, "s", now)
	path := vrt.TempFile("c05p.wsp", img)
	w, err := Open(path)
	vrt.Assume(err == nil)
	ps := []int64{16, 20, 32}[vrt.Choose("pageSize", 3)]
	vrt.RealFileBuffer()
	w.pageSize = ps
	w.fileBuf = filebuffer.New(w.file, int64(len(img)), ps)
	vrt.Reach("pre")
	// reads through real pages see exactly the file
	first := vrtRawSlots(w, h)
	for ai := range pre.t {
		for k := range pre.t[ai] {
			vrt.Assert(first.t[ai][k] == pre.t[ai][k], "C05.pages paged read returns the stored time")
			vrt.Assert(vrt.SameBits(float64(first.v[ai][k]), float64(pre.v[ai][k])), "C05.pages paged read returns the stored value")
		}
	}
	t := vrtInstant(h, "t")
	vrtAssumeNear(h, now, t)
	if w.UpdatePointForArchive(ArchiveIDBest, t, Value(vrt.F64("v")), now) != nil {
		return
	}
	vrt.Reach("written")
	live := vrtRawSlots(w, h)
	disk := vrt.ReadFile(path)
	vrt.Assert(len(disk) == len(img), "C05.pages file length unchanged")
	for i := range img {
		vrt.Assert(disk[i] == img[i], "C05.pages dirty pages stay off disk until Sync")
	}
	vrt.Assert(w.Sync() == nil, "C05.pages sync succeeds")
	vrt.Assert(w.Close() == nil, "C05.pages close")
	w2, err := Open(path)
	vrt.Assert(err == nil, "C05.pages reopen")
	re := vrtRawSlots(w2, h)
	for ai := range live.t {
		for k := range live.t[ai] {
			vrt.Assert(re.t[ai][k] == live.t[ai][k], "C05.pages flushed dirty pages carry the live state (time)")
			vrt.Assert(vrt.SameBits(float64(re.v[ai][k]), float64(live.v[ai][k])), "C05.pages flushed dirty pages carry the live state (value)")
		}
	}
}

// VerifC05_CreateFrame: a handle from Create that is dropped before its first Sync leaves the
// file exactly as creation left it (zero-filled, full length): Close never flushes.
func VerifC05_CreateFrame() {
	h := vrtChooseHeaderFrom([]string{"1s:2s", "1s:2s,2s:6s"}, Sum, 0.5)
	now := vrtInstant(h, "now")
	vrtAssumeClock(h, now)
	path := vrt.NoFile("c05c.wsp")
	w, err := Create(path, h.archiveInfoList, Sum, 0.5)
	vrt.Assume(err == nil)
	vrt.Reach("pre")
	before := vrt.ReadFile(path)
	vrt.Assert(int64(len(before)) == h.ExpectedFileSize(), "C05.create file has its final length from creation on")
	vrtC05Op(w, h, now)
	_ = w.Close()
	after := vrt.ReadFile(path)
	vrt.Assert(len(after) == len(before), "C05.create length unchanged by an unsynced session")
	for i := range before {
		vrt.Assert(after[i] == before[i], "C05.create an unsynced session on a created handle leaves the file as creation left it")
	}
}

// VerifC05_Bulk: one bulk update of 4200 points (more than one page-buffer-sized chunk of any
// plausible internal batching) into a 5000-point archive, then the handle is dropped without
// Sync: nothing reaches the disk.  The times are concrete (the run is a single path); the base
// instant and the values are symbolic.
func VerifC05_Bulk() {
	list, _ := ParseArchiveInfoList("1s:5000s")
	path := vrt.NoFile("c05b.wsp")
	c, err := Create(path, list, Sum, 0.5)
	vrt.Assume(err == nil)
	vrt.Assume(c.Sync() == nil)
	_ = c.Close()
	before := vrt.ReadFile(path)
	w, err := Open(path)
	vrt.Assume(err == nil)
	now := Timestamp(1000000 + vrt.Choose("phase", 3))
	v := Value(vrt.F64("v"))
	const n = 4200
	pts := make([]Point, n)
	for i := range pts {
		pts[i] = Point{Time: now - Timestamp(n-1-i), Value: v}
	}
	vrt.Reach("pre")
	werr := w.UpdatePointsForArchive(pts, 0, now)
	vrt.Assert(werr == nil, "C05.bulk bulk update succeeds")
	_ = w.Close()
	after := vrt.ReadFile(path)
	vrt.Assert(len(after) == len(before), "C05.bulk file length unchanged")
	same := true
	for i := range before {
		if after[i] != before[i] {
			same = false
		}
	}
	vrt.Assert(same, "C05.bulk unsynced bulk update stays off disk")
}
