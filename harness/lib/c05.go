package whispertool

// C05 — Sync persistence: the file's bytes change only during Sync; after Sync the disk holds
// exactly the handle's state; length and header never change.

func vrtC05Op(w *Whisper, h *Header, now Timestamp) {
	na := len(h.archiveInfoList)
	switch vrt.Choose("op", 4) {
	case 0:
		t := vrtInstant(h, "t")
		vrtAssumeNear(h, now, t)
		_ = w.UpdatePointForArchive(-1+vrt.Choose("id", na+1), t, Value(vrt.F64("v")), now)
	case 1:
		pts := []Point{{vrtInstant(h, "t0"), Value(vrt.F64("v0"))}, {vrtInstant(h, "t1"), Value(vrt.F64("v1"))}}
		vrtAssumeNear(h, now, pts[0].Time)
		vrtAssumeNear(h, now, pts[1].Time)
		_ = w.UpdatePointsForArchive(pts, -1+vrt.Choose("id", na+1), now)
	case 2:
		_, _ = w.FetchFromArchive(vrt.Choose("id", na), vrtInstant(h, "from"), vrtInstant(h, "until"), now)
	case 3:
		_, _ = w.GetAllRawUnsortedPoints(vrt.Choose("id", na))
	}
}

// VerifC05_Frame: any operation other than Sync, followed by dropping the handle, leaves the
// file exactly as it was (every abandonment point between Syncs).
func VerifC05_Frame() {
	h := vrtChooseHeaderFrom([]string{"1s:2s", "5s:15s", "1s:2s,2s:6s"}, Sum, 0.5)
	now := vrtInstant(h, "now")
	vrtAssumeClock(h, now)
	img, _ := vrtInvImage(h, "s", now)
	path := vrt.TempFile("c05.wsp", img)
	w, err := Open(path)
	vrt.Assume(err == nil)
	vrt.Reach("pre")
	vrtC05Op(w, h, now)
	vrt.Assert(vrt.DiskWrites(path) == 0, "C05.frame no disk write outside Sync (before close)")
	_ = w.Close()
	vrt.Assert(vrt.DiskWrites(path) == 0, "C05.frame Close does not flush")
	disk := vrt.ReadFile(path)
	vrt.Assert(len(disk) == len(img), "C05.frame file length unchanged")
	for i := range img {
		vrt.Assert(disk[i] == img[i], "C05.frame unsynced change stays off disk")
	}
}

// VerifC05_Sync: after a successful Sync a fresh handle observes exactly the live handle's
// state; header bytes and file length are unchanged.
func VerifC05_Sync() {
	h := vrtChooseHeaderFrom([]string{"1s:2s", "5s:15s", "1s:2s,2s:6s"}, Sum, 0.5)
	now := vrtInstant(h, "now")
	vrtAssumeClock(h, now)
	img, _ := vrtInvImage(h, "s", now)
	path := vrt.TempFile("c05s.wsp", img)
	w, err := Open(path)
	vrt.Assume(err == nil)
	vrt.Reach("pre")
	vrtC05Op(w, h, now)
	live := vrtRawSlots(w, h)
	vrt.Assert(w.Sync() == nil, "C05.sync succeeds")
	vrt.Assert(w.Close() == nil, "C05.sync close")
	disk := vrt.ReadFile(path)
	vrt.Assert(len(disk) == len(img), "C05.fixed file length never changes")
	hs := int(h.Size())
	for i := 0; i < hs; i++ {
		vrt.Assert(disk[i] == img[i], "C05.fixed header bytes never change")
	}
	w2, err := Open(path)
	vrt.Assert(err == nil, "C05.reopen succeeds")
	re := vrtRawSlots(w2, h)
	for ai := range live.t {
		for k := range live.t[ai] {
			vrt.Assert(re.t[ai][k] == live.t[ai][k], "C05.sync reopened handle sees the synced state (time)")
			vrt.Assert(vrt.SameBits(float64(re.v[ai][k]), float64(live.v[ai][k])), "C05.sync reopened handle sees the synced state (value)")
		}
	}
	vrt.Assert(w2.Header().ArchiveInfoList().Equal(h.archiveInfoList), "C05.reopen same layout")
}
