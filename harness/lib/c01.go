package whispertool

// C01 — ring storage.  Inductive decomposition (DESIGN section 4, C01): fetch from an
// arbitrary image, one write step from any state satisfying the invariant, creation, plus a
// bounded-history cross-check against a ghost "last write per interval" oracle.

// VerifC01_Align: alignment kernels for every positive int32 step (symbolic), instants
// presented multiplicatively t = k*S+m.
func VerifC01_Align() {
	s := Duration(vrt.I32("S"))
	vrt.Assume(s > 0)
	k := vrt.U32("k")
	m := vrt.U32("m")
	vrt.Assume(int64(m) < int64(s))
	t64 := int64(k)*int64(s) + int64(m)
	vrt.Assume(t64 <= 0xffffffff-int64(s))
	t := Timestamp(t64)
	a := &ArchiveInfo{secondsPerPoint: s, numberOfPoints: 1}
	vrt.Reach("pre")
	vrt.Assert(int64(a.intervalForWrite(t)) == int64(k)*int64(s), "C01.align intervalForWrite(k*S+m) = k*S")
	vrt.Assert(int64(a.interval(t)) == int64(k)*int64(s)+int64(s), "C01.align interval(k*S+m) = k*S+S")
	vrt.Assert(int64(t.Truncate(s)) == int64(k)*int64(s), "C01.align Truncate(k*S+m, S) = k*S")
}

// VerifC01_Walk: the ring law for the real pointIndex/pointOffsetAt.
func VerifC01_Walk() {
	h := vrtChooseHeader(Sum, 0.5)
	ai := vrt.Choose("archive", len(h.archiveInfoList))
	a := &h.archiveInfoList[ai]
	s, n := int64(a.secondsPerPoint), int64(a.numberOfPoints)
	kb := vrt.U32("kB")
	kf := vrt.U32("kF")
	b64 := int64(kb) * s
	f64 := int64(kf) * s
	vrt.Assume(b64 <= 0xffffffff)
	vrt.Assume(f64+n*s <= 0xffffffff)
	vrt.Assume(f64-b64 <= 0x7fffffff-n*s)
	vrt.Assume(b64-f64 <= 0x7fffffff-n*s)
	b, f := Timestamp(b64), Timestamp(f64)
	vrt.Reach("pre")
	i0 := a.pointIndex(b, f)
	vrt.Assert(i0 >= 0, "C01.walk index non-negative")
	vrt.Assert(int64(i0) < n, "C01.walk index below N")
	vrt.Assert(i0 == refIndex(b, f, a.secondsPerPoint, a.numberOfPoints), "C01.walk index is the floor-mod ring slot")
	for i := int64(1); i <= n; i++ {
		ii := a.pointIndex(b, Timestamp(f64+i*s))
		vrt.Assert(int64(ii) == (int64(i0)+i)%n, "C01.walk consecutive intervals occupy consecutive slots")
	}
	off := a.pointOffsetAt(i0)
	vrt.Assert(int64(off) == int64(a.offset)+12*int64(i0), "C01.walk slot offset")
	vrt.Assert(int64(off)+12 <= int64(a.offset)+12*n, "C01.walk slot inside the archive region")
	// the base may move by whole laps without changing any index
	lap := vrt.Choose("lap", 3) - 1
	b2 := b64 + int64(lap)*n*s
	if b2 >= 0 {
		if b2 <= 0xffffffff {
			vrt.Assume(f64-b2 <= 0x7fffffff-n*s)
			vrt.Assume(b2-f64 <= 0x7fffffff-n*s)
			vrt.Assert(a.pointIndex(Timestamp(b2), f) == i0, "C01.walk index invariant under base moving by whole laps")
		}
	}
}

// VerifC01_Fetch: arbitrary image (base aligned or zero, everything else arbitrary: stale
// laps, foreign times, garbage), arbitrary archive/window/clock: every returned value is
// the bits of the slot of its interval if that slot's stored time is exactly the interval,
// and NaN otherwise.
func VerifC01_Fetch() {
	h := vrtChooseHeader(Sum, 0.5)
	img, sl := vrtSymbolicImage(h, "s")
	now := vrtInstant(h, "now")
	vrtAssumeClock(h, now)
	for ai := range h.archiveInfoList {
		vrtAssumeNear(h, now, sl.t[ai][0])
	}
	w := vrtOpenImage("c01.wsp", img)
	from := vrtInstant(h, "from")
	until := vrtInstant(h, "until")
	ai := vrt.Choose("archive", len(h.archiveInfoList))
	a := h.archiveInfoList[ai]
	vrt.Reach("pre")
	ts, err := w.FetchFromArchive(ai, from, until, now)
	if err != nil {
		return
	}
	if ts == nil {
		return
	}
	vrt.Reach("series")
	b := sl.t[ai][0]
	for i, got := range ts.values {
		t := ts.fromTime.Add(Duration(i) * ts.step)
		if b == 0 {
			vrt.Assert(got.IsNaN(), "C01.fetch never-written archive yields NaN")
			continue
		}
		j := refIndex(b, t, a.secondsPerPoint, a.numberOfPoints)
		if sl.t[ai][j] == t {
			vrt.Assert(vrt.SameBits(float64(got), float64(sl.v[ai][j])), "C01.fetch live slot: value of exactly that interval")
		} else {
			vrt.Assert(got.IsNaN(), "C01.fetch stale or foreign slot yields NaN")
		}
	}
}

func vrtRawSlots(w *Whisper, h *Header) *vrtSlots {
	out := &vrtSlots{}
	for ai := range h.archiveInfoList {
		pts, err := w.GetAllRawUnsortedPoints(ai)
		if err != nil {
			panic("raw dump failed: " + err.Error())
		}
		ts := make([]Timestamp, len(pts))
		vs := make([]Value, len(pts))
		for j, p := range pts {
			ts[j], vs[j] = p.Time, p.Value
		}
		out.t = append(out.t, ts)
		out.v = append(out.v, vs)
	}
	return out
}

func vrtAssertInv(h *Header, ai int, sl *vrtSlots, what string) {
	a := h.archiveInfoList[ai]
	b := sl.t[ai][0]
	if b == 0 {
		return
	}
	vrt.Assert(int64(b)%int64(a.secondsPerPoint) == 0, what+" base aligned")
	for j := 1; j < int(a.numberOfPoints); j++ {
		tj := sl.t[ai][j]
		if tj != 0 {
			vrt.Assert(int64(tj)%int64(a.secondsPerPoint) == 0, what+" slot time aligned")
			vrt.Assert(refIndex(b, tj, a.secondsPerPoint, a.numberOfPoints) == j, what+" slot time belongs to its slot")
		}
	}
}

// VerifC01_Write1: one single update from any state satisfying the invariant.
func VerifC01_Write1() {
	h := vrtChooseHeader(Sum, 0.5)
	now := vrtInstant(h, "now")
	vrtAssumeClock(h, now)
	img, pre := vrtInvImage(h, "s", now)
	w := vrtOpenImage("c01w.wsp", img)
	na := len(h.archiveInfoList)
	id := -1 + vrt.Choose("id", na+1)
	t := vrtInstant(h, "t")
	v := Value(vrt.F64("v"))
	vrt.Reach("pre")
	err := w.UpdatePointForArchive(id, t, v, now)
	if err != nil {
		return
	}
	vrt.Reach("written")
	post := vrtRawSlots(w, h)
	// which archive received the direct write
	ai := id
	if id == -1 {
		ai = na - 1
		for i := na - 1; i >= 0; i-- {
			a := h.archiveInfoList[i]
			if int64(a.secondsPerPoint)*int64(a.numberOfPoints) >= int64(now)-int64(t) {
				ai = i
			}
		}
	}
	a := h.archiveInfoList[ai]
	at := refAlign(t, a.secondsPerPoint)
	b := pre.t[ai][0]
	if b == 0 {
		b = at
	}
	j := refIndex(b, at, a.secondsPerPoint, a.numberOfPoints)
	vrt.Assert(post.t[ai][j] == at, "C01.write1 slot of floor(t/S)*S holds that interval")
	vrt.Assert(vrt.SameBits(float64(post.v[ai][j]), float64(v)), "C01.write1 slot holds the written value")
	if j != 0 {
		vrt.Assert(post.t[ai][0] == b, "C01.write1 base interval kept (or set by the first write)")
	}
	for k := 0; k < int(a.numberOfPoints); k++ {
		if k != j {
			vrt.Assert(post.t[ai][k] == pre.t[ai][k], "C01.write1 other slots: time unchanged")
			vrt.Assert(vrt.SameBits(float64(post.v[ai][k]), float64(pre.v[ai][k])), "C01.write1 other slots: value unchanged")
		}
	}
	// (The invariant is re-established by construction: the written slot holds an aligned time
	// whose ring index is j, every other slot is untouched, and when j = 0 the new base is
	// congruent to the old one modulo N*S, which by C01.walk leaves every index unchanged.)
	// finer archives are never touched by a write to a coarser one
	for f := 0; f < ai; f++ {
		for k := range pre.t[f] {
			vrt.Assert(post.t[f][k] == pre.t[f][k], "C01.write1 finer archive untouched (time)")
			vrt.Assert(vrt.SameBits(float64(post.v[f][k]), float64(pre.v[f][k])), "C01.write1 finer archive untouched (value)")
		}
	}
}

// VerifC01_WriteN: one batch update to a named archive, all points inside its retention and
// not in the future (routing and acceptance are C03's subject).
func VerifC01_WriteN() {
	// the quick layout family plus one more 2-level layout in the thorough tier
	wl := []string{"1s:2s", "5s:15s", "1s:2s,2s:6s", "60s:120s,120s:360s"}
	if vrt.Tier() == 1 {
		wl = append(wl, "1s:3s,3s:9s")
	}
	h := vrtChooseHeaderFrom(wl, Sum, 0.5)
	now := vrtInstant(h, "now")
	vrtAssumeClock(h, now)
	img, pre := vrtInvImage(h, "s", now)
	w := vrtOpenImage("c01n.wsp", img)
	na := len(h.archiveInfoList)
	ai := vrt.Choose("archive", na)
	a := h.archiveInfoList[ai]
	maxB := 2
	if vrt.Tier() == 1 && na == 1 {
		maxB = 3 // batches of 3 on multi-archive layouts did not finish within 25 minutes
	}
	nb := 1 + vrt.Choose("batch", maxB)
	pts := make([]Point, nb)
	for i := range pts {
		pts[i] = Point{Time: vrtInstant(h, vrt.N("pt", i)), Value: Value(vrt.F64(vrt.N("pv", i)))}
		vrt.Assume(pts[i].Time <= now)
		vrt.Assume(int64(pts[i].Time) > int64(now)-int64(a.secondsPerPoint)*int64(a.numberOfPoints))
	}
	in := make([]Point, nb)
	copy(in, pts)
	vrt.Reach("pre")
	err := w.UpdatePointsForArchive(pts, ai, now)
	vrt.Assert(err == nil, "C01.writeN batch accepted")
	post := vrtRawSlots(w, h)
	// new base: the first aligned time in time order if the archive was empty
	b := pre.t[ai][0]
	if b == 0 {
		min := in[0].Time
		for _, p := range in {
			if p.Time < min {
				min = p.Time
			}
		}
		b = refAlign(min, a.secondsPerPoint)
	}
	touched := make([]bool, a.numberOfPoints)
	for _, p := range in {
		at := refAlign(p.Time, a.secondsPerPoint)
		j := refIndex(b, at, a.secondsPerPoint, a.numberOfPoints)
		touched[j] = true
		// a later interval of the same batch that is congruent modulo N*S replaces this one
		replaced := false
		for _, q := range in {
			aq := refAlign(q.Time, a.secondsPerPoint)
			if aq > at {
				if refIndex(b, aq, a.secondsPerPoint, a.numberOfPoints) == j {
					replaced = true
				}
			}
		}
		if replaced {
			continue
		}
		vrt.Assert(post.t[ai][j] == at, "C01.writeN slot of each point holds its interval")
		// the value is one supplied for that interval in this call
		okv := false
		for _, q := range in {
			if refAlign(q.Time, a.secondsPerPoint) == at {
				if vrt.SameBits(float64(post.v[ai][j]), float64(q.Value)) {
					okv = true
				}
			}
		}
		vrt.Assert(okv, "C01.writeN slot holds a value supplied for that interval")
	}
	if !touched[0] {
		vrt.Assert(post.t[ai][0] == pre.t[ai][0], "C01.writeN base interval kept when slot 0 is not addressed")
	}
	for k := range touched {
		if !touched[k] {
			vrt.Assert(post.t[ai][k] == pre.t[ai][k], "C01.writeN unaddressed slots: time unchanged")
			vrt.Assert(vrt.SameBits(float64(post.v[ai][k]), float64(pre.v[ai][k])), "C01.writeN unaddressed slots: value unchanged")
		}
	}
	for f := 0; f < ai; f++ {
		for k := range pre.t[f] {
			vrt.Assert(post.t[f][k] == pre.t[f][k], "C01.writeN finer archive untouched (time)")
		}
	}
}

// VerifC01_Create: the image produced by the real Create is the header followed by zeros,
// of exactly the expected length: every archive starts never-written (invariant holds).
func VerifC01_Create() {
	h := vrtChooseHeader(Sum, 0.5)
	path := vrt.NoFile("c01c.wsp")
	w, err := Create(path, h.archiveInfoList, Sum, 0.5)
	vrt.Assert(err == nil, "C01.create succeeds")
	vrt.Reach("created")
	vrt.Assert(w.Sync() == nil, "C01.create sync succeeds")
	b := vrt.ReadFile(path)
	hdr := h.AppendTo(nil)
	vrt.Assert(int64(len(b)) == h.ExpectedFileSize(), "C01.create file length = header + 12 x points")
	vrt.Assert(len(hdr) == int(h.Size()), "C01.create header size")
	for i := range b {
		if i < len(hdr) {
			vrt.Assert(b[i] == hdr[i], "C01.create header bytes")
		} else {
			vrt.Assert(b[i] == 0, "C01.create every slot zero (never written)")
		}
	}
	first := h.archiveInfoList[0]
	vrt.Assert(int64(first.offset) == h.Size(), "C01.create first archive starts right after the header")
}

// VerifC01_Hist: bounded histories from the created file: single/batch writes to the only
// (or finest) archive with clock advances and a reopen, then an arbitrary fetch checked
// against a ghost map interval -> last write.
func VerifC01_Hist() {
	ls := []string{"1s:2s"}
	if vrt.Tier() == 1 {
		ls = []string{"1s:2s", "1s:3s"}
	}
	txt := ls[vrt.Choose("layout", len(ls))]
	list, _ := ParseArchiveInfoList(txt)
	path := vrt.NoFile("c01h.wsp")
	w, err := Create(path, list, Sum, 0.5)
	vrt.Assume(err == nil)
	h := w.Header()
	a := h.archiveInfoList[0]
	s, n := int64(a.secondsPerPoint), int64(a.numberOfPoints)
	depth := 2
	if vrt.Tier() == 1 {
		depth = 3
	}
	now := vrtInstant(h, "now0")
	vrtAssumeClock(h, now)
	vrt.Assume(int64(now) <= 0xfffffff0-64*s*n)
	type wr struct {
		at Timestamp
		v  Value
	}
	var writes []wr
	for step := 0; step < depth; step++ {
		// clock advance (possibly longer than the retention)
		adv := vrt.U32(vrt.N("adv", step))
		vrt.Assume(int64(adv) <= 4*s*n)
		now = now + Timestamp(adv)
		op := vrt.Choose(vrt.N("op", step), 3)
		switch op {
		case 0: // single write
			t := Timestamp(vrt.U32(vrt.N("t", step)))
			v := Value(vrt.F64(vrt.N("v", step)))
			vrt.Assume(t <= now)
			vrt.Assume(int64(t) > int64(now)-s*n)
			e := w.UpdatePointForArchive(0, t, v, now)
			vrt.Assert(e == nil, "C01.hist in-range single write accepted")
			writes = append(writes, wr{refAlign(t, a.secondsPerPoint), v})
		case 1: // batch of two, ascending distinct intervals
			t1 := Timestamp(vrt.U32(vrt.N("t", step)))
			t2 := Timestamp(vrt.U32(vrt.N("u", step)))
			v1 := Value(vrt.F64(vrt.N("v", step)))
			v2 := Value(vrt.F64(vrt.N("w", step)))
			vrt.Assume(t2 <= now)
			vrt.Assume(int64(t1) > int64(now)-s*n)
			vrt.Assume(refAlign(t1, a.secondsPerPoint) < refAlign(t2, a.secondsPerPoint))
			e := w.UpdatePointsForArchive([]Point{{t1, v1}, {t2, v2}}, 0, now)
			vrt.Assert(e == nil, "C01.hist batch accepted")
			writes = append(writes, wr{refAlign(t1, a.secondsPerPoint), v1}, wr{refAlign(t2, a.secondsPerPoint), v2})
		case 2: // sync, drop the handle, reopen
			vrt.Assert(w.Sync() == nil, "C01.hist sync")
			vrt.Assert(w.Close() == nil, "C01.hist close")
			w, err = Open(path)
			vrt.Assert(err == nil, "C01.hist reopen")
		}
	}
	from := vrtInstant(h, "from")
	until := vrtInstant(h, "until")
	vrt.Reach("pre-fetch")
	ts, err := w.FetchFromArchive(0, from, until, now)
	if err != nil {
		return
	}
	if ts == nil {
		return
	}
	vrt.Reach("series")
	for i, got := range ts.values {
		t := ts.fromTime.Add(Duration(i) * ts.step)
		// ghost: last write to exactly t, unless a later write went to a congruent other interval
		live := false
		var want Value
		for _, x := range writes {
			if x.at == t {
				live, want = true, x.v
			} else if refFloorMod(int64(x.at)-int64(t), s*n) == 0 {
				live = false
			}
		}
		if live {
			vrt.Assert(vrt.SameBits(float64(got), float64(want)), "C01.hist value of the most recent write to exactly that interval")
		} else {
			vrt.Assert(got.IsNaN(), "C01.hist NaN where no write to that interval survives")
		}
	}
}
