package whispertool

// C19 — text syntax round-trips.

// VerifC19_DurRoundTrip: ParseDuration(d.String()) == d for every non-negative duration
// (all 2^31 values at once; the decimal printer is the axiomatic Sprintf("%d") model).
func VerifC19_DurRoundTrip() {
	d := Duration(vrt.I32("d"))
	vrt.Assume(d >= 0)
	vrt.Reach("pre")
	s := d.String()
	got, err := ParseDuration(s)
	vrt.Assert(err == nil, "C19.dur.rt parse(print(d)) succeeds")
	vrt.Assert(got == d, "C19.dur.rt parse(print(d)) == d")
}
