package whispertool

// C19 — text syntax round-trips.

// VerifC19_DurRoundTrip: ParseDuration(d.String()) == d for every non-negative duration
// (all 2^31 values at once; the decimal printer is the axiomatic Sprintf("%d") model).
func VerifC19_DurRoundTrip() {
	d := Duration(vrt.I32("d"))
	vrt.Assume(d >= 0)
	vrt.Reach("pre")
	s := d.String()
	got, err := ParseDuration(s)
	vrt.Assert(err == nil, "C19.dur.rt parse(print(d)) succeeds")
	vrt.Assert(got == d, "C19.dur.rt parse(print(d)) == d")
}

func refUnit(c byte) int64 {
	switch c {
	case 's':
		return 1
	case 'm':
		return 60
	case 'h':
		return 3600
	case 'd':
		return 86400
	case 'w':
		return 7 * 86400
	case 'y':
		return 365 * 86400
	}
	return 0
}

// VerifC19_DurExact: every byte string of length 0..L: whenever ParseDuration accepts, the
// string has the shape [0-9]+[smhdwy] and the result is exactly number x unit computed in
// int64 and fits 31 bits; every string of that shape without redundant leading zeros whose
// exact value fits is accepted.
func VerifC19_DurExact() {
	maxLen := 5
	if vrt.Tier() == 1 {
		maxLen = 8
	}
	n := vrt.Choose("len", maxLen+1)
	s := vrt.Str("s", n)
	vrt.Reach("pre")
	d, err := ParseDuration(s)

	// reference meaning, from the statement, in 64-bit arithmetic
	shape := n >= 2
	var val int64
	for i := 0; i < n-1; i++ {
		c := s[i]
		if c < '0' || c > '9' {
			shape = false
		} else {
			val = val*10 + int64(c-'0')
		}
	}
	var mult int64
	if n >= 1 {
		mult = refUnit(s[n-1])
	}
	if mult == 0 {
		shape = false
	}
	exact := val * mult
	leadingZero := n >= 3 && s[0] == '0'

	if err == nil {
		vrt.Reach("accepted")
		vrt.Assert(shape, "C19.dur.exact accepted string has shape digits+unit")
		vrt.Assert(int64(d) == exact, "C19.dur.exact value is number x unit")
		vrt.Assert(exact <= 2147483647, "C19.dur.exact no wrap-around accepted")
		vrt.Assert(d >= 0, "C19.dur.exact result non-negative")
	} else {
		vrt.Reach("rejected")
		if shape {
			if !leadingZero {
				vrt.Assert(exact > 2147483647, "C19.dur.exact well-formed in-range string is accepted")
			}
		}
	}
}

// VerifC19_Method: names of all enumerated methods parse back to the same value; strings
// outside the table are rejected.
func VerifC19_Method() {
	vrt.Reach("pre")
	for i := 1; i <= 8; i++ {
		m := AggregationMethod(i)
		got, err := AggregationMethodString(m.String())
		vrt.Assert(err == nil, "C19.method name parses")
		vrt.Assert(got == m, "C19.method parse(print(m)) == m")
	}
	for _, bad := range []string{"", "avg", "Average", "sum ", "AggregationMethod(9)", "percentile2"} {
		_, err := AggregationMethodString(bad)
		vrt.Assert(err != nil, "C19.method unknown name rejected")
	}
	_, err := AggregationMethodString(AggregationMethod(0).String())
	vrt.Assert(err != nil, "C19.method out-of-range value's text rejected")
	_, err = AggregationMethodString(AggregationMethod(9).String())
	vrt.Assert(err != nil, "C19.method out-of-range value's text rejected (9)")
}

// VerifC19_ArchRoundTrip: for an accepted archive list l, ParseArchiveInfoList(l.String())
// equals l (steps, counts and offsets).
func VerifC19_ArchRoundTrip() {
	steps := []Duration{1, 7, 60, 3600}
	na := 1 + vrt.Choose("A", 2)
	s0 := steps[vrt.Choose("S0", len(steps))]
	maxN := uint32(999)
	if vrt.Tier() == 1 {
		maxN = 99999
	}
	var list ArchiveInfoList
	n0 := vrt.U32("N0")
	vrt.Assume(n0 >= 1)
	vrt.Assume(n0 <= maxN)
	list = append(list, NewArchiveInfo(s0, n0))
	if na == 2 {
		r := Duration(2 + vrt.Choose("r", 2))
		n1 := vrt.U32("N1")
		vrt.Assume(n1 >= 1)
		vrt.Assume(n1 <= maxN)
		list = append(list, NewArchiveInfo(s0*r, n1))
	}
	h, err := NewHeader(Sum, 0.5, list)
	if err != nil {
		return
	}
	vrt.Reach("accepted")
	l := h.ArchiveInfoList()
	txt := l.String()
	got, err := ParseArchiveInfoList(txt)
	vrt.Assert(err == nil, "C19.arch printed list parses")
	vrt.Assert(len(got) == len(l), "C19.arch same length")
	for i := range l {
		vrt.Assert(got[i].secondsPerPoint == l[i].secondsPerPoint, "C19.arch same step")
		vrt.Assert(got[i].numberOfPoints == l[i].numberOfPoints, "C19.arch same count")
		vrt.Assert(got[i].offset == l[i].offset, "C19.arch same offset")
	}
}

// VerifC19_ArchExact: any "<dur>:<dur>" string accepted by ParseArchiveInfo denotes a
// positive step and a retention that is a positive multiple of it.
func VerifC19_ArchExact() {
	maxLen := 5
	if vrt.Tier() == 1 {
		maxLen = 6
	}
	n := vrt.Choose("len", maxLen+1)
	s := vrt.Str("s", n)
	vrt.Reach("pre")
	a, err := ParseArchiveInfo(s)
	if err != nil {
		return
	}
	vrt.Reach("accepted")
	// find the colon and re-parse both halves with the duration parser as reference
	colon := -1
	for i := 0; i < n; i++ {
		if s[i] == ':' {
			if colon < 0 {
				colon = i
			}
		}
	}
	vrt.Assert(colon > 0, "C19.arch.exact accepted string contains ':' after a step")
	step, e1 := ParseDuration(s[:colon])
	ret, e2 := ParseDuration(s[colon+1:])
	vrt.Assert(e1 == nil, "C19.arch.exact step part is a duration")
	vrt.Assert(e2 == nil, "C19.arch.exact retention part is a duration")
	vrt.Assert(step > 0, "C19.arch.exact step positive")
	vrt.Assert(ret > 0, "C19.arch.exact retention positive")
	vrt.Assert(int64(ret)%int64(step) == 0, "C19.arch.exact retention is a multiple of the step")
	vrt.Assert(a.secondsPerPoint == step, "C19.arch.exact step value")
	vrt.Assert(int64(a.numberOfPoints) == int64(ret)/int64(step), "C19.arch.exact point count")
}
