package whispertool

// C15 — hostile bytes: decoders and handles on damaged files never panic and never
// allocate out of proportion to the input.  Panic-freedom is implicit: the engine raises an
// obligation at every index, slice, makeslice, divide and nil dereference.

func vrtHostileLen(maxQuick, maxThorough int) int {
	max := maxQuick
	if vrt.Tier() == 1 {
		max = maxThorough
	}
	return vrt.Choose("len", max+1)
}

func VerifC15_DecPoint() {
	n := vrtHostileLen(13, 13)
	b := vrt.Bytes("b", n)
	vrt.Reach("pre")
	vrt.AllocLimit(2*n + 64)
	var p Point
	rest, err := p.TakeFrom(b)
	if err == nil {
		vrt.Assert(len(rest) == n-12, "C15.dec Point consumes 12 bytes")
	}
	vrt.Assert(vrt.AllocBytes() <= int64(2*n+64), "C15.dec Point allocation proportional to input")
}

func VerifC15_DecArchiveInfo() {
	n := vrtHostileLen(13, 13)
	b := vrt.Bytes("b", n)
	vrt.Reach("pre")
	vrt.AllocLimit(2*n + 64)
	var a ArchiveInfo
	rest, err := a.TakeFrom(b)
	if err == nil {
		vrt.Assert(len(rest) == n-12, "C15.dec ArchiveInfo consumes 12 bytes")
	}
	vrt.Assert(vrt.AllocBytes() <= int64(2*n+64), "C15.dec ArchiveInfo allocation proportional to input")
}

func VerifC15_DecPoints() {
	n := vrtHostileLen(33, 45)
	b := vrt.Bytes("b", n)
	vrt.Reach("pre")
	vrt.AllocLimit(2*n + 64)
	var pp Points
	rest, err := pp.TakeFrom(b)
	if err == nil {
		vrt.Reach("accepted")
		vrt.Assert(len(rest)+8+12*len(pp) == n, "C15.dec Points consumes exactly its encoding")
	}
	vrt.Assert(vrt.AllocBytes() <= int64(2*n+64), "C15.dec Points allocation proportional to input")
}

func VerifC15_DecTimeSeries() {
	n := vrtHostileLen(29, 45)
	b := vrt.Bytes("b", n)
	vrt.Reach("pre")
	vrt.AllocLimit(2*n + 64)
	ts := &TimeSeries{}
	rest, err := ts.TakeFrom(b)
	if err == nil {
		vrt.Reach("accepted")
		vrt.Assert(len(rest)+12+8*len(ts.values) == n, "C15.dec TimeSeries consumes exactly its encoding")
	}
	vrt.Assert(vrt.AllocBytes() <= int64(2*n+64), "C15.dec TimeSeries allocation proportional to input")
}

func VerifC15_DecHeader() {
	n := vrtHostileLen(41, 53)
	b := vrt.Bytes("b", n)
	vrt.Reach("pre")
	vrt.AllocLimit(2*n + 64)
	h := &Header{}
	rest, err := h.TakeFrom(b)
	if err == nil {
		vrt.Reach("accepted")
		vrt.Assert(len(rest)+16+12*len(h.archiveInfoList) == n, "C15.dec Header consumes exactly its encoding")
		vrt.Assert(int(h.archiveCount) == len(h.archiveInfoList), "C15.dec Header count matches list")
		vrt.Assert(h.aggregationMethod >= 1 && h.aggregationMethod <= 6, "C15.dec an accepted header has a storable aggregation method (a well-formed object)")
		for _, a := range h.archiveInfoList {
			vrt.Assert(a.secondsPerPoint > 0, "C15.dec every archive of an accepted header has a positive step (a well-formed object)")
			vrt.Assert(a.numberOfPoints > 0, "C15.dec every archive of an accepted header has a positive point count (a well-formed object)")
		}
	} else {
		var werr *WantLargerBufferError
		if vrtAsWant(err, &werr) {
			vrt.Assert(werr.WantedBufSize > n, "C15.dec Header wanted size larger than the buffer it was given")
		}
	}
	vrt.Assert(vrt.AllocBytes() <= int64(2*n+64), "C15.dec Header allocation proportional to input")
}

// VerifC15_Open: Open on an arbitrary (corrupt, truncated, hostile) file never panics and
// never allocates out of proportion to the file: at most one page plus twice the file size.
func VerifC15_Open() {
	sizes := vrtHostileSizes()
	n := sizes[vrt.Choose("size", len(sizes))]
	b := vrt.Bytes("b", n)
	path := vrt.TempFile("c15.wsp", b)
	vrt.Reach("pre")
	vrt.AllocLimit(4096 + 2*n + 4096)
	w, err := Open(path)
	if err == nil {
		vrt.Reach("opened")
		vrt.Assert(int(w.Header().archiveCount) == len(w.Header().archiveInfoList), "C15.open header consistent")
		am := w.Header().aggregationMethod
		vrt.Assert(am >= 1 && am <= 6, "C15.open an accepted file has a storable aggregation method (a well-formed object)")
		for _, a := range w.Header().archiveInfoList {
			// a zero step or count makes every later fetch/update divide by zero
			vrt.Assert(a.secondsPerPoint > 0, "C15.open every archive of an accepted file has a positive step (a well-formed object)")
			vrt.Assert(a.numberOfPoints > 0, "C15.open every archive of an accepted file has a positive point count (a well-formed object)")
		}
		_ = w.Close()
	}
	vrt.Assert(vrt.AllocBytes() <= int64(4096+2*n+4096), "C15.open allocation proportional to the file")
}

// VerifC15_Ops: a handle successfully opened on a damaged file - valid header, but every slot
// byte arbitrary (unaligned or absurd base interval, stale times, garbage) - answers fetches,
// raw dumps and updates with a result or an error: never a panic, never an allocation out of
// proportion to the file.
func VerifC15_Ops() {
	ls := []string{"5s:15s", "1s:2s,2s:6s"}
	if vrt.Tier() == 1 {
		ls = []string{"1s:2s", "5s:15s", "1s:2s,2s:6s"}
	}
	h := vrtChooseHeaderFrom(ls, Sum, 0.5)
	img, _ := vrtSymbolicImage(h, "s") // base interval NOT assumed aligned here
	w := vrtOpenImage("c15o.wsp", img)
	na := len(h.archiveInfoList)
	now := Timestamp(vrt.U32("now"))
	vrt.Assume(now != 0)
	vrt.Reach("pre")
	vrt.AllocLimit(32*len(img) + 4096)
	switch vrt.Choose("op", 4) {
	case 0:
		_, _ = w.FetchFromArchive(-1+vrt.Choose("id", na+1), Timestamp(vrt.U32("from")), Timestamp(vrt.U32("until")), now)
	case 1:
		_, _ = w.GetAllRawUnsortedPoints(vrt.Choose("id", na))
	case 2:
		_ = w.UpdatePointForArchive(-1+vrt.Choose("id", na+1), Timestamp(vrt.U32("t")), Value(vrt.F64("v")), now)
	case 3:
		pts := []Point{{Timestamp(vrt.U32("t0")), Value(vrt.F64("v0"))}, {Timestamp(vrt.U32("t1")), Value(vrt.F64("v1"))}}
		_ = w.UpdatePointsForArchive(pts, -1+vrt.Choose("id", na+1), now)
	}
	vrt.Assert(vrt.AllocBytes() <= int64(32*len(img)+4096), "C15.ops allocation proportional to the file")
}

// VerifC15_Short: a file whose header is valid but whose data area is cut short.
func VerifC15_Short() {
	h := vrtChooseHeaderFrom([]string{"1s:2s,2s:6s"}, Sum, 0.5)
	full, _ := vrtSymbolicImage(h, "s")
	cut := vrt.Choose("cut", len(full)-int(h.Size())) // keep header + cut data bytes (strictly less than all)
	img := full[:int(h.Size())+cut]
	path := vrt.TempFile("c15s.wsp", img)
	vrt.Reach("pre")
	vrt.AllocLimit(32*len(full) + 8192)
	w, err := Open(path)
	if err != nil {
		return
	}
	vrt.Reach("opened")
	now := Timestamp(vrt.U32("now"))
	vrt.Assume(now != 0)
	switch vrt.Choose("op", 3) {
	case 0:
		_, _ = w.FetchFromArchive(vrt.Choose("id", 2), Timestamp(vrt.U32("from")), Timestamp(vrt.U32("until")), now)
	case 1:
		_, _ = w.GetAllRawUnsortedPoints(vrt.Choose("id", 2))
	case 2:
		_ = w.UpdatePointForArchive(ArchiveIDBest, Timestamp(vrt.U32("t")), Value(vrt.F64("v")), now)
	}
	vrt.Assert(vrt.AllocBytes() <= int64(32*len(full)+8192), "C15.short allocation proportional to the file")
}

// VerifC15_Counts: a file whose (valid) header promises far more points than the file holds:
// reads on the opened handle must not allocate by the header's counts.
func VerifC15_Counts() {
	n := vrt.U32("N")
	vrt.Assume(n >= 1)
	vrt.Assume(n <= 0x7fffffff)
	list := ArchiveInfoList{{offset: 28, secondsPerPoint: 1, numberOfPoints: n}}
	h := &Header{aggregationMethod: Sum, maxRetention: Duration(n), xFilesFactor: 0.5, archiveCount: 1, archiveInfoList: list}
	img := h.AppendTo(nil)
	k := vrt.Choose("slots", 3)
	img = append(img, vrt.Bytes("data", 12*k)...)
	path := vrt.TempFile("c15c.wsp", img)
	vrt.Reach("pre")
	vrt.AllocLimit(32*len(img) + 8192)
	w, err := Open(path)
	if err != nil {
		return
	}
	vrt.Reach("opened")
	if vrt.Choose("op", 2) == 0 {
		_, _ = w.GetAllRawUnsortedPoints(0)
	} else {
		now := Timestamp(vrt.U32("now"))
		vrt.Assume(now != 0)
		_, _ = w.FetchFromArchive(0, Timestamp(vrt.U32("from")), Timestamp(vrt.U32("until")), now)
	}
	vrt.Assert(vrt.AllocBytes() <= int64(32*len(img)+8192), "C15.counts allocation proportional to the file, not to the header's counts")
}
