package whispertool

// C15 — hostile bytes: decoders and handles on damaged files never panic and never
// allocate out of proportion to the input.  Panic-freedom is implicit: the engine raises an
// obligation at every index, slice, makeslice, divide and nil dereference.

func vrtHostileLen(maxQuick, maxThorough int) int {
	max := maxQuick
	if vrt.Tier() == 1 {
		max = maxThorough
	}
	return vrt.Choose("len", max+1)
}

func VerifC15_DecPoint() {
	n := vrtHostileLen(13, 13)
	b := vrt.Bytes("b", n)
	vrt.Reach("pre")
	vrt.AllocLimit(2*n + 64)
	var p Point
	rest, err := p.TakeFrom(b)
	if err == nil {
		vrt.Assert(len(rest) == n-12, "C15.dec Point consumes 12 bytes")
	}
	vrt.Assert(vrt.AllocBytes() <= int64(2*n+64), "C15.dec Point allocation proportional to input")
}

func VerifC15_DecArchiveInfo() {
	n := vrtHostileLen(13, 13)
	b := vrt.Bytes("b", n)
	vrt.Reach("pre")
	vrt.AllocLimit(2*n + 64)
	var a ArchiveInfo
	rest, err := a.TakeFrom(b)
	if err == nil {
		vrt.Assert(len(rest) == n-12, "C15.dec ArchiveInfo consumes 12 bytes")
	}
	vrt.Assert(vrt.AllocBytes() <= int64(2*n+64), "C15.dec ArchiveInfo allocation proportional to input")
}

func VerifC15_DecPoints() {
	n := vrtHostileLen(33, 45)
	b := vrt.Bytes("b", n)
	vrt.Reach("pre")
	vrt.AllocLimit(2*n + 64)
	var pp Points
	rest, err := pp.TakeFrom(b)
	if err == nil {
		vrt.Reach("accepted")
		vrt.Assert(len(rest)+8+12*len(pp) == n, "C15.dec Points consumes exactly its encoding")
	}
	vrt.Assert(vrt.AllocBytes() <= int64(2*n+64), "C15.dec Points allocation proportional to input")
}

func VerifC15_DecTimeSeries() {
	n := vrtHostileLen(29, 45)
	b := vrt.Bytes("b", n)
	vrt.Reach("pre")
	vrt.AllocLimit(2*n + 64)
	ts := &TimeSeries{}
	rest, err := ts.TakeFrom(b)
	if err == nil {
		vrt.Reach("accepted")
		vrt.Assert(len(rest)+12+8*len(ts.values) == n, "C15.dec TimeSeries consumes exactly its encoding")
	}
	vrt.Assert(vrt.AllocBytes() <= int64(2*n+64), "C15.dec TimeSeries allocation proportional to input")
}

func VerifC15_DecHeader() {
	n := vrtHostileLen(41, 53)
	b := vrt.Bytes("b", n)
	vrt.Reach("pre")
	vrt.AllocLimit(2*n + 64)
	h := &Header{}
	rest, err := h.TakeFrom(b)
	if err == nil {
		vrt.Reach("accepted")
		vrt.Assert(len(rest)+16+12*len(h.archiveInfoList) == n, "C15.dec Header consumes exactly its encoding")
		vrt.Assert(int(h.archiveCount) == len(h.archiveInfoList), "C15.dec Header count matches list")
	} else {
		var werr *WantLargerBufferError
		if vrtAsWant(err, &werr) {
			vrt.Assert(werr.WantedBufSize > n, "C15.dec Header wanted size larger than the buffer it was given")
		}
	}
	vrt.Assert(vrt.AllocBytes() <= int64(2*n+64), "C15.dec Header allocation proportional to input")
}

// VerifC15_Open: Open on an arbitrary (corrupt, truncated, hostile) file never panics and
// never allocates out of proportion to the file: at most one page plus twice the file size.
func VerifC15_Open() {
	sizes := vrtHostileSizes()
	n := sizes[vrt.Choose("size", len(sizes))]
	b := vrt.Bytes("b", n)
	path := vrt.TempFile("c15.wsp", b)
	vrt.Reach("pre")
	vrt.AllocLimit(4096 + 2*n + 4096)
	w, err := Open(path)
	if err == nil {
		vrt.Reach("opened")
		vrt.Assert(int(w.Header().archiveCount) == len(w.Header().archiveInfoList), "C15.open header consistent")
		_ = w.Close()
	}
	vrt.Assert(vrt.AllocBytes() <= int64(4096+2*n+4096), "C15.open allocation proportional to the file")
}
