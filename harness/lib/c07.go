package whispertool

import "math"

// C07 — layout validation: every entry point accepts exactly the well-formed lists.

// refValid: the acceptance predicate from the statement, in 64-bit arithmetic.
func refValid(method int64, xff float32, s []int64, n []int64) bool {
	if len(s) == 0 {
		return false
	}
	if method < 1 {
		return false
	}
	if method > 6 {
		return false
	}
	if !(xff >= 0) { // also rejects NaN
		return false
	}
	if !(xff <= 1) {
		return false
	}
	off := int64(16 + 12*len(s))
	for i := range s {
		if s[i] <= 0 {
			return false
		}
		if n[i] <= 0 {
			return false
		}
		if s[i]*n[i] > math.MaxInt32 {
			return false // retention not representable in the 32-bit field
		}
		off += 12 * n[i]
		if off > math.MaxUint32 {
			return false // offsets/size not representable in 32 bits
		}
		if i+1 < len(s) {
			if !(s[i] < s[i+1]) {
				return false
			}
			if s[i+1]%s[i] != 0 {
				return false
			}
			if !(s[i]*n[i] < s[i+1]*n[i+1]) {
				return false
			}
			if n[i] < s[i+1]/s[i] {
				return false
			}
		}
	}
	return true
}

func vrtC07Fields() (int64, float32, []int64, []int64, ArchiveInfoList) {
	maxA := 3
	na := vrt.Choose("A", maxA+1)
	method := int64(vrt.I32("method"))
	xff := vrt.F32("xff")
	var s, n []int64
	var list ArchiveInfoList
	for i := 0; i < na; i++ {
		si := vrt.I32(vrt.N("S", i))
		ni := vrt.U32(vrt.N("N", i))
		s = append(s, int64(si))
		n = append(n, int64(ni))
		// the caller's list may carry stale offsets (e.g. derived from another file's header)
		list = append(list, ArchiveInfo{offset: vrt.U32(vrt.N("staleOff", i)), secondsPerPoint: Duration(si), numberOfPoints: ni})
	}
	return method, xff, s, n, list
}

// VerifC07_NewHeader: NewHeader (hence Create) accepts exactly refValid.
func VerifC07_NewHeader() {
	method, xff, s, n, list := vrtC07Fields()
	vrt.Reach("pre")
	want := refValid(method, xff, s, n)
	_, err := NewHeader(AggregationMethod(method), xff, list)
	if want {
		vrt.Reach("valid")
		vrt.Assert(err == nil, "C07.newheader well-formed layout accepted")
	} else {
		vrt.Reach("invalid")
		vrt.Assert(err != nil, "C07.newheader ill-formed layout rejected")
	}
}

// VerifC07_Decode: Header.TakeFrom (hence Open's readHeader) on the encoding of arbitrary
// fields with the canonical offsets accepts exactly refValid, and with one wrong offset rejects.
func VerifC07_Decode() {
	method, xff, s, n, _ := vrtC07Fields()
	na := len(s)
	// fields must be encodable in the 32-bit header fields
	off := int64(16 + 12*na)
	var list ArchiveInfoList
	for i := 0; i < na; i++ {
		vrt.Assume(off <= math.MaxUint32)
		list = append(list, ArchiveInfo{offset: uint32(off), secondsPerPoint: Duration(s[i]), numberOfPoints: uint32(n[i])})
		off += 12 * n[i]
	}
	var maxRet Duration
	if na > 0 {
		maxRet = Duration(s[na-1] * n[na-1]) // whatever the writer put there; not validated by the statement
	}
	h := &Header{aggregationMethod: AggregationMethod(method), maxRetention: maxRet, xFilesFactor: xff, archiveCount: uint32(na), archiveInfoList: list}
	buf := h.AppendTo(nil)
	vrt.Reach("pre")
	want := refValid(method, xff, s, n)
	g := &Header{}
	_, err := g.TakeFrom(buf)
	if want {
		vrt.Reach("valid")
		vrt.Assert(err == nil, "C07.decode well-formed header accepted")
	} else {
		vrt.Reach("invalid")
		vrt.Assert(err != nil, "C07.decode ill-formed header rejected")
	}
}

// VerifC07_Agree: NewHeader and decode agree on every field combination, and an accepted
// header re-encodes to the same bytes (reopen gives an equal header).
func VerifC07_Agree() {
	method, xff, _, _, list := vrtC07Fields()
	vrt.Reach("pre")
	h, err := NewHeader(AggregationMethod(method), xff, list)
	if err != nil {
		return
	}
	vrt.Reach("accepted")
	buf := h.AppendTo(nil)
	g := &Header{}
	rest, derr := g.TakeFrom(buf)
	vrt.Assert(derr == nil, "C07.agree accepted layout decodes (create then open succeeds)")
	vrt.Assert(len(rest) == 0, "C07.agree nothing left over")
	vrt.Assert(g.archiveCount == h.archiveCount, "C07.agree same archive count")
	vrt.Assert(g.maxRetention == h.maxRetention, "C07.agree same max retention")
	for i := range h.archiveInfoList {
		vrt.Assert(g.archiveInfoList[i] == h.archiveInfoList[i], "C07.agree same archive info")
	}
	vrt.Assert(int64(len(buf)) == h.Size(), "C07.agree header size")
	vrt.Assert(h.ExpectedFileSize() <= math.MaxUint32, "C07.agree file size representable in 32-bit offsets")
}
