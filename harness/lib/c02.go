package whispertool

// C02 — downsampling.

func refAgg(m AggregationMethod, k []Value) Value {
	switch m {
	case Average:
		s := Value(0)
		for _, v := range k {
			s += v
		}
		return s / Value(len(k))
	case Sum:
		s := Value(0)
		for _, v := range k {
			s += v
		}
		return s
	case First:
		return k[0]
	case Last:
		return k[len(k)-1]
	case Max:
		r := k[0]
		for _, v := range k {
			if v > r {
				r = v
			}
		}
		return r
	case Min:
		r := k[0]
		for _, v := range k {
			if v < r {
				r = v
			}
		}
		return r
	}
	panic("refAgg: bad method")
}

// VerifC02_Agg: the real aggregate equals the reference left fold for every method and
// every list of 1..4 (5) arbitrary float64 values.
func VerifC02_Agg() {
	maxN := 3
	if vrt.Tier() == 1 {
		maxN = 5
	}
	m := AggregationMethod(1 + vrt.Choose("method", 6))
	n := 1 + vrt.Choose("n", maxN)
	vals := make([]Value, n)
	for i := range vals {
		vals[i] = Value(vrt.F64(vrt.N("v", i)))
	}
	vrt.Reach("pre")
	got := aggregate(m, vals)
	want := refAgg(m, vals)
	vrt.Assert(vrt.SameBits(float64(got), float64(want)) || (got.IsNaN() && want.IsNaN()), "C02.agg aggregate = reference fold")
}

// VerifC02_Step: one propagation step between two adjacent archives from any state satisfying
// the invariant, any xFilesFactor in [0,1], any method.
func VerifC02_Step() {
	ls := []string{"1s:2s,2s:6s", "1s:3s,3s:9s", "2s:6s,6s:12s", "60s:120s,120s:360s"}
	if vrt.Tier() == 1 {
		ls = append(ls, "1s:4s,4s:8s", "1s:4s,2s:10s")
	}
	txt := ls[vrt.Choose("layout", len(ls))]
	list, _ := ParseArchiveInfoList(txt)
	m := AggregationMethod(1 + vrt.Choose("method", 6))
	xff := vrt.F32("xff")
	vrt.Assume(xff >= 0)
	vrt.Assume(xff <= 1)
	h, err := NewHeader(m, xff, list)
	vrt.Assume(err == nil)
	now := vrtInstant(h, "now")
	vrtAssumeClock(h, now)
	img, pre := vrtInvImage(h, "s", now)
	w := vrtOpenImage("c02.wsp", img)
	hi, lo := h.archiveInfoList[0], h.archiveInfoList[1]
	r := int(lo.secondsPerPoint / hi.secondsPerPoint)
	kt := vrt.U32("kt")
	t64 := int64(kt) * int64(lo.secondsPerPoint)
	vrt.Assume(t64 > 0)
	vrt.Assume(t64 <= 0xffffffff-4*int64(lo.secondsPerPoint)) // T2: away from the end of the 32-bit epoch
	t := Timestamp(t64)
	vrtAssumeNear(h, now, t)
	vrt.Reach("pre")

	next, perr := w.propagate(1, []Timestamp{t}, now)
	vrt.Assert(perr == nil, "C02.step propagate succeeds")
	vrt.Assert(len(next) == 0, "C02.step no further level to visit")
	post := vrtRawSlots(w, h)

	// known finer values for the coarse interval, in time order
	var k []Value
	bh := pre.t[0][0]
	for i := 0; i < r; i++ {
		ft := Timestamp(t64 + int64(i)*int64(hi.secondsPerPoint))
		j := refIndex(bh, ft, hi.secondsPerPoint, hi.numberOfPoints)
		if pre.t[0][j] == ft {
			k = append(k, pre.v[0][j])
		}
	}
	vrtUnchanged(pre, post, 0, "C02.step finer archive untouched")
	store := false
	if len(k) >= 1 {
		if float32(len(k))/float32(r) >= xff {
			store = true
		}
	}
	if !store {
		vrt.Reach("skipped")
		vrtUnchanged(pre, post, 1, "C02.step coarser archive untouched when too few values are known")
		return
	}
	vrt.Reach("stored")
	bl := pre.t[1][0]
	if bl == 0 {
		bl = t
	}
	jl := refIndex(bl, t, lo.secondsPerPoint, lo.numberOfPoints)
	want := refAgg(m, k)
	vrt.Assert(post.t[1][jl] == t, "C02.step coarse slot holds its interval")
	got := post.v[1][jl]
	vrt.Assert(vrt.SameBits(float64(got), float64(want)) || (got.IsNaN() && want.IsNaN()), "C02.step coarse slot holds the aggregate of the known finer values")
	for q := range pre.t[1] {
		if q != jl {
			vrt.Assert(post.t[1][q] == pre.t[1][q], "C02.step other coarse slots untouched (time)")
			vrt.Assert(vrt.SameBits(float64(post.v[1][q]), float64(pre.v[1][q])), "C02.step other coarse slots untouched (value)")
		}
	}
}

// VerifC02_Chain: a single update on a 3-level layout: every coarser slot covering the written
// point is recomputed, level by level, from the post-write data of the next finer archive;
// recomputation continues to the next level only for slots that were stored; every other slot
// of every archive is left exactly as it was.
func VerifC02_Chain() {
	vrtC02Chain([]string{"1s:2s,2s:4s,4s:8s"})
}

// VerifC02_Write2: the same write-through obligation on 2-level layouts whose coarser ring is
// barely longer than the finer one (coarser retention <= finer retention + coarser step - 2),
// where the oldest acceptable finer point falls into the oldest coarser interval.
func VerifC02_Write2() {
	vrtC02Chain([]string{"1s:5s,3s:6s", "1s:2s,2s:4s"})
}

func vrtC02Chain(ls []string) {
	txt := ls[vrt.Choose("layout", len(ls))]
	list, _ := ParseArchiveInfoList(txt)
	m := AggregationMethod(1 + vrt.Choose("method", 6))
	xff := vrt.F32("xff")
	vrt.Assume(xff >= 0)
	vrt.Assume(xff <= 1)
	h, err := NewHeader(m, xff, list)
	vrt.Assume(err == nil)
	now := vrtInstant(h, "now")
	vrtAssumeClock(h, now)
	img, pre := vrtInvImage(h, "s", now)
	w := vrtOpenImage("c02c.wsp", img)
	t := vrtInstant(h, "t")
	vrtAssumeNear(h, now, t)
	a0 := h.archiveInfoList[0]
	vrt.Assume(t <= now)
	vrt.Assume(int64(t) > int64(now)-int64(a0.secondsPerPoint)*int64(a0.numberOfPoints))
	v := Value(vrt.F64("v"))
	vrt.Reach("pre")
	werr := w.UpdatePointForArchive(0, t, v, now)
	vrt.Assert(werr == nil, "C02.chain in-range update accepted")
	post := vrtRawSlots(w, h)
	na := len(h.archiveInfoList)
	stored := true // level 0 was written directly
	for lv := 1; lv < na; lv++ {
		hi, lo := h.archiveInfoList[lv-1], h.archiveInfoList[lv]
		ct := refAlign(t, lo.secondsPerPoint)
		r := int(lo.secondsPerPoint / hi.secondsPerPoint)
		bl := post.t[lv][0]
		changedSlot := -1
		if stored {
			// known finer values in the POST-write finer archive, in time order
			var k []Value
			bh := post.t[lv-1][0]
			for i := 0; i < r; i++ {
				ft := Timestamp(int64(ct) + int64(i)*int64(hi.secondsPerPoint))
				j := refIndex(bh, ft, hi.secondsPerPoint, hi.numberOfPoints)
				if post.t[lv-1][j] == ft {
					k = append(k, post.v[lv-1][j])
				}
			}
			st := false
			if len(k) >= 1 {
				if float32(len(k))/float32(r) >= xff {
					st = true
				}
			}
			stored = st
			if st {
				vrt.Assert(bl != 0, "C02.chain coarser archive has a base after a stored aggregate")
				j := refIndex(bl, ct, lo.secondsPerPoint, lo.numberOfPoints)
				changedSlot = j
				want := refAgg(m, k)
				got := post.v[lv][j]
				vrt.Assert(post.t[lv][j] == ct, "C02.chain coarser slot covering the point holds its interval")
				vrt.Assert(vrt.SameBits(float64(got), float64(want)) || (got.IsNaN() && want.IsNaN()), "C02.chain coarser slot is the aggregate of the current finer values")
			}
		}
		for q := range pre.t[lv] {
			if q != changedSlot {
				vrt.Assert(post.t[lv][q] == pre.t[lv][q], "C02.chain slots not covering the point (or below a skipped level) untouched (time)")
				vrt.Assert(vrt.SameBits(float64(post.v[lv][q]), float64(pre.v[lv][q])), "C02.chain slots not covering the point (or below a skipped level) untouched (value)")
			}
		}
	}
}
