package whispertool

import "os"

// C06 — on-disk format: checked against a reference decoder written from the classic
// Whisper format description (big-endian fields, contiguous archives, 12-byte slots
// positioned relative to the first slot's interval).

func refBE32(b []byte, off int) uint32 {
	return uint32(b[off])<<24 | uint32(b[off+1])<<16 | uint32(b[off+2])<<8 | uint32(b[off+3])
}

func refBE64(b []byte, off int) uint64 {
	return uint64(refBE32(b, off))<<32 | uint64(refBE32(b, off+4))
}

// VerifC06_Header: the file produced by Create decodes, with the reference rules, to the
// requested metadata; archives are contiguous in declaration order and the length is exact.
func VerifC06_Header() {
	ls := vrtLayoutList()
	txt := ls[vrt.Choose("layout", len(ls))]
	list, _ := ParseArchiveInfoList(txt)
	m := AggregationMethod(vrt.Int("method"))
	vrt.Assume(m >= 1)
	vrt.Assume(m <= 6)
	xff := vrt.F32("xff")
	vrt.Assume(xff >= 0)
	vrt.Assume(xff <= 1)
	path := vrt.NoFile("c06.wsp")
	w, err := Create(path, list, m, xff)
	vrt.Assert(err == nil, "C06.header create succeeds")
	vrt.Assert(w.Sync() == nil, "C06.header sync succeeds")
	vrt.Reach("created")
	b := vrt.ReadFile(path)
	na := len(list)
	total := 0
	for _, a := range list {
		total += int(a.numberOfPoints)
	}
	vrt.Assert(len(b) == 16+12*na+12*total, "C06.header total length = header + 12 x total points")
	vrt.Assert(int64(refBE32(b, 0)) == int64(m), "C06.header aggregation type")
	last := list[na-1]
	vrt.Assert(int64(refBE32(b, 4)) == int64(last.secondsPerPoint)*int64(last.numberOfPoints), "C06.header max retention = retention of the coarsest archive")
	vrt.Assert(vrt.SameBits32(vrt.F32FromBits(refBE32(b, 8)), xff), "C06.header xFilesFactor")
	vrt.Assert(int(refBE32(b, 12)) == na, "C06.header archive count")
	off := 16 + 12*na
	for i, a := range list {
		vrt.Assert(int(refBE32(b, 16+12*i)) == off, "C06.header archive offsets contiguous in declaration order")
		vrt.Assert(int64(refBE32(b, 16+12*i+4)) == int64(a.secondsPerPoint), "C06.header secondsPerPoint")
		vrt.Assert(refBE32(b, 16+12*i+8) == a.numberOfPoints, "C06.header points")
		off += 12 * int(a.numberOfPoints)
	}
	vrt.Assert(off == len(b), "C06.header archives fill the file exactly")
}

// VerifC06_Slot: after a write and Sync the bytes that changed are exactly one 12-byte record
// BE32(interval) || BE64(float bits) at offset + (((interval-base)/S) floor-mod N)*12 where
// base is the interval in the archive's first slot (or the record goes to the first slot when
// that was 0) - the reference writer's rule.
func VerifC06_Slot() {
	h := vrtChooseHeader(Sum, 0.5)
	now := vrtInstant(h, "now")
	vrtAssumeClock(h, now)
	img, pre := vrtInvImage(h, "s", now)
	path := vrt.TempFile("c06s.wsp", img)
	w, err := Open(path)
	vrt.Assume(err == nil)
	ai := len(h.archiveInfoList) - 1 // coarsest archive: a direct write with no propagation
	a := h.archiveInfoList[ai]
	t := vrtInstant(h, "t")
	vrtAssumeNear(h, now, t)
	v := Value(vrt.F64("v"))
	vrt.Reach("pre")
	if w.UpdatePointForArchive(ai, t, v, now) != nil {
		return
	}
	vrt.Assert(w.Sync() == nil, "C06.slot sync")
	vrt.Reach("written")
	b := vrt.ReadFile(path)
	vrt.Assert(len(b) == len(img), "C06.slot length unchanged")
	at := refAlign(t, a.secondsPerPoint)
	base := pre.t[ai][0]
	j := 0
	if base != 0 {
		j = refIndex(base, at, a.secondsPerPoint, a.numberOfPoints)
	}
	rec := int(a.offset) + 12*j
	vrt.Assert(refBE32(b, rec) == uint32(at), "C06.slot record holds the big-endian interval")
	vrt.Assert(refBE64(b, rec+4) == vrt.F64Bits(float64(v)), "C06.slot record holds the big-endian float64 bits")
	for i := range b {
		if i < rec || i >= rec+12 {
			vrt.Assert(b[i] == img[i], "C06.slot every other byte unchanged")
		}
	}
}

// VerifC06_Read: whispertool reads a file exactly as the classic format rule says: the value of
// interval T in an archive is the float stored in slot ((T-base)/S floor-mod N) iff that slot's
// stored interval is T, and absent (NaN) otherwise - whoever wrote the bytes (any image whose
// base is aligned; slots may hold newer or older laps, as a reference writer leaves them).
func VerifC06_Read() {
	h := vrtChooseHeaderFrom([]string{"1s:2s", "5s:15s", "1s:2s,2s:6s"}, Sum, 0.5)
	img, sl := vrtSymbolicImage(h, "s")
	now := vrtInstant(h, "now")
	vrtAssumeClock(h, now)
	for ai := range h.archiveInfoList {
		vrtAssumeNear(h, now, sl.t[ai][0])
	}
	w := vrtOpenImage("c06r.wsp", img)
	ai := vrt.Choose("archive", len(h.archiveInfoList))
	a := h.archiveInfoList[ai]
	from := vrtInstant(h, "from")
	until := vrtInstant(h, "until")
	vrt.Reach("pre")
	ts, err := w.FetchFromArchive(ai, from, until, now)
	if err != nil || ts == nil {
		return
	}
	vrt.Reach("series")
	base := refBE32(img, int(a.offset))
	for i, got := range ts.values {
		t := ts.fromTime.Add(Duration(i) * ts.step)
		if base == 0 {
			vrt.Assert(got.IsNaN(), "C06.read empty archive reads as absent")
			continue
		}
		j := refIndex(Timestamp(base), t, a.secondsPerPoint, a.numberOfPoints)
		rec := int(a.offset) + 12*j
		if refBE32(img, rec) == uint32(t) {
			vrt.Assert(vrt.F64Bits(float64(got)) == refBE64(img, rec+4), "C06.read value of the slot addressed by the format rule")
		} else {
			vrt.Assert(got.IsNaN(), "C06.read a slot holding another interval reads as absent")
		}
	}
}

// VerifC06_Recreate: Create over an existing file (non-exclusive open flags, the way a database
// is re-created in place) still yields a file of exactly header + 12 x total points bytes, whatever
// length and content the old file had.
func VerifC06_Recreate() {
	ls := []string{"1s:2s", "1s:2s,2s:6s"}
	txt := ls[vrt.Choose("layout", len(ls))]
	list, _ := ParseArchiveInfoList(txt)
	h, _ := NewHeader(Sum, 0.5, list)
	exp := int(h.ExpectedFileSize())
	sizes := []int{0, 5, exp - 12, exp, exp + 12, exp + 40}
	old := vrt.Bytes("old", sizes[vrt.Choose("oldSize", len(sizes))])
	path := vrt.TempFile("c06r.wsp", old)
	w, err := Create(path, list, Sum, 0.5, WithOpenFileFlag(os.O_RDWR|os.O_CREATE))
	vrt.Assert(err == nil, "C06.recreate create over an existing file succeeds")
	vrt.Assert(w.Sync() == nil, "C06.recreate sync succeeds")
	vrt.Assert(w.Close() == nil, "C06.recreate close succeeds")
	vrt.Reach("recreated")
	b := vrt.ReadFile(path)
	vrt.Assert(len(b) == exp, "C06.recreate total length = header + 12 x total points")
	na := len(list)
	vrt.Assert(int(refBE32(b, 12)) == na, "C06.recreate archive count")
	off := 16 + 12*na
	for i, a := range list {
		vrt.Assert(int(refBE32(b, 16+12*i)) == off, "C06.recreate archive offsets contiguous")
		vrt.Assert(refBE32(b, 16+12*i+8) == a.numberOfPoints, "C06.recreate points")
		off += 12 * int(a.numberOfPoints)
	}
	vrt.Assert(off == len(b), "C06.recreate archives fill the file exactly")
}
