package whispertool

// C17 — concurrent reads.  A solver does not enumerate goroutine schedules; decided here is the
// sufficient condition the code relies on (DESIGN section 4, C17): read paths store nothing
// into any object that existed before the call (all buffers are per call), so concurrent
// fetches on one handle cannot interfere and each equals its sequential result.

func VerifC17_Frame() {
	h := vrtChooseHeaderFrom([]string{"1s:2s", "1s:2s,2s:6s"}, Sum, 0.5)
	now := vrtInstant(h, "now")
	vrtAssumeClock(h, now)
	img, _ := vrtInvImage(h, "s", now)
	w := vrtOpenImage("c17.wsp", img)
	na := len(h.archiveInfoList)
	before := *w
	from := vrtInstant(h, "from")
	until := vrtInstant(h, "until")
	vrt.Reach("pre")
	vrt.FrameBegin()
	switch vrt.Choose("op", 4) {
	case 0:
		_, _ = w.FetchFromArchive(-1+vrt.Choose("id", na+1), from, until, now)
	case 1:
		_, _ = w.GetAllRawUnsortedPoints(vrt.Choose("id", na))
	case 2:
		_ = w.Header().String()
		_ = w.ArchiveInfoList()
		_ = w.MaxRetention()
		_ = w.AggregationMethod()
		_ = w.XFilesFactor()
	case 3:
		// two fetches back to back: the second sees exactly what it would see alone
		a1, _ := w.FetchFromArchive(0, from, until, now)
		a2, _ := w.FetchFromArchive(0, from, until, now)
		if a1 != nil {
			vrt.Assert(a2 != nil, "C17.frame repeated fetch: same outcome")
			vrt.Assert(len(a1.values) == len(a2.values), "C17.frame repeated fetch: same shape")
			for i := range a1.values {
				vrt.Assert(vrt.SameBits(float64(a1.values[i]), float64(a2.values[i])), "C17.frame repeated fetch: same values")
			}
		}
	}
	n := vrt.FrameViolations()
	vrt.Assert(n == 0, "C17.frame read paths store nothing into the shared handle")
	vrt.Assert(vrt.DeepEqual(before, *w), "C17.frame handle state unchanged by reads")
}
