package whispertool

// C04 — fetch window contract: the shape of a fetch depends only on layout, window and clock.

func VerifC04_Shape() {
	h := vrtChooseHeader(Sum, 0.5)
	img, sl := vrtSymbolicImage(h, "s")
	na := len(h.archiveInfoList)
	// base interval of every archive: 0 or aligned (content otherwise arbitrary)
	w := vrtOpenImage("c04.wsp", img)
	now := vrtInstant(h, "now")
	last := h.archiveInfoList[na-1]
	vrt.Assume(int64(now) <= 0xffffffff-4*int64(last.secondsPerPoint)) // T2, upper end of the epoch
	vrt.Assume(now != 0)                                               // 0 means "use the wall clock"
	for ai := range h.archiveInfoList {
		vrtAssumeNear(h, now, sl.t[ai][0]) // T1: base interval within 2^31 s of the clock
	}
	from := vrtInstant(h, "from")
	until := vrtInstant(h, "until")
	id := -2 + vrt.Choose("id", na+3) // -2, -1 (best), 0..A-1, A
	if id == -1 {
		// best-archive selection measures now-from as an int32 Duration (T1)
		if from <= now {
			vrt.Assume(int64(now)-int64(from) <= 0x7fffffff)
		}
	}
	// the archive the statement selects (computed before the call so that the lower T2 bound can
	// be stated for exactly that archive: the clock is at least one retention of the archive that
	// answers, plus two of its steps, after the epoch - clocks smaller than the file's maximum
	// retention are included)
	refAI := id
	if id == -1 {
		refAI = na - 1
		for i := na - 1; i >= 0; i-- {
			a := h.archiveInfoList[i]
			if int64(a.secondsPerPoint)*int64(a.numberOfPoints) >= int64(now)-int64(from) {
				refAI = i
			}
		}
	}
	if refAI >= 0 {
		if refAI < na {
			ra := h.archiveInfoList[refAI]
			vrt.Assume(int64(now) >= int64(ra.secondsPerPoint)*int64(ra.numberOfPoints)+2*int64(ra.secondsPerPoint))
		}
	}
	vrt.Reach("pre")

	ts, err := w.FetchFromArchive(id, from, until, now)

	// ---- reference, from the statement
	wantErr := from > until
	if id < -1 {
		wantErr = true
	}
	if id >= na {
		wantErr = true
	}
	if wantErr {
		vrt.Reach("error-case")
		vrt.Assert(err != nil, "C04 fails iff from>until or id out of range (error expected)")
		vrt.Assert(ts == nil, "C04 no series on error")
		return
	}
	vrt.Assert(err == nil, "C04 fails iff from>until or id out of range (no error expected)")
	ai := refAI
	a := h.archiveInfoList[ai]
	s := int64(a.secondsPerPoint)
	ret := s * int64(a.numberOfPoints)
	oldest := int64(now) - ret
	if int64(from) > int64(now) {
		vrt.Reach("future")
		vrt.Assert(ts == nil, "C04 no series iff window wholly in the future")
		return
	}
	if int64(until) < oldest {
		vrt.Reach("too-old")
		vrt.Assert(ts == nil, "C04 no series iff window wholly before the retention")
		return
	}
	vrt.Assert(ts != nil, "C04 a series is returned for a window that touches the retention")
	f, u := int64(from), int64(until)
	if f < oldest {
		f = oldest
	}
	if u > int64(now) {
		u = int64(now)
	}
	wantFrom := refFloorDiv(f, s)*s + s
	wantUntil := refFloorDiv(u, s)*s + s
	if wantFrom == wantUntil {
		wantUntil += s
	}
	vrt.Reach("series")
	vrt.Assert(int64(ts.step) == s, "C04 step is the archive's step")
	vrt.Assert(int64(ts.fromTime) == wantFrom, "C04 from is the aligned instant after the clamped from")
	vrt.Assert(int64(ts.untilTime) == wantUntil, "C04 until is the aligned instant after the clamped until (extended when equal)")
	vrt.Assert(int64(len(ts.values)) == (wantUntil-wantFrom)/s, "C04 exactly (until-from)/step values")
	pts := ts.Points()
	vrt.Assert(len(pts) == len(ts.values), "C04 one point per value")
	for i := range pts {
		vrt.Assert(int64(pts[i].Time) == wantFrom+int64(i)*s, "C04 i-th point belongs to from+i*step")
	}
}
