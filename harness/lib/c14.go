package whispertool

import "errors"

// C14 — binary codec: round trip, exact framing, truncation protocol.

type vrtCodec interface {
	AppendTo(dst []byte) []byte
	TakeFrom(src []byte) ([]byte, error)
}

// vrtFrame checks the framing laws for one encoder/decoder pair:
// AppendTo leaves the prefix intact and appends exactly size bytes; TakeFrom of enc||tail
// succeeds and returns a remainder that is exactly tail (same bytes, same backing array).
// Returns the buffer handed to the decoder (enc||tail without the prefix).
func vrtFrame(what string, x vrtCodec, y vrtCodec, size int) {
	pre := vrt.Bytes("pre", 2)
	ntail := vrt.Choose("ntail", 3)
	tail := vrt.Bytes("tail", ntail)
	p0, p1 := pre[0], pre[1]
	enc := x.AppendTo(pre)
	vrt.Assert(len(enc) == 2+size, "C14.rt "+what+" appends exactly size bytes")
	vrt.Assert(enc[0] == p0, "C14.rt "+what+" prefix byte 0 intact")
	vrt.Assert(enc[1] == p1, "C14.rt "+what+" prefix byte 1 intact")
	buf := append(enc[2:len(enc):len(enc)], tail...)
	rest, err := y.TakeFrom(buf)
	vrt.Assert(err == nil, "C14.rt "+what+" decodes")
	vrt.Assert(len(rest) == ntail, "C14.rt "+what+" remainder length")
	for i := 0; i < ntail; i++ {
		vrt.Assert(rest[i] == tail[i], "C14.rt "+what+" remainder bytes untouched")
	}
	if ntail > 0 {
		vrt.Assert(&rest[0] == &buf[size], "C14.rt "+what+" remainder aliases the input")
	}
}

// vrtTrunc checks the truncation protocol for every proper prefix length l < size:
// TakeFrom returns *WantLargerBufferError with l < WantedBufSize <= size and retrying with
// the wanted size terminates in at most 3 steps.
func vrtTrunc(what string, x vrtCodec, mk func() vrtCodec, size int) {
	enc := x.AppendTo(nil)
	vrt.Assert(len(enc) == size, "C14.trunc "+what+" encoded size")
	if size == 0 {
		return
	}
	l := vrt.Choose("prefix", size)
	steps := 0
	for {
		y := mk()
		_, err := y.TakeFrom(enc[:l:l])
		if l == size {
			vrt.Assert(err == nil, "C14.trunc "+what+" full message decodes after retries")
			return
		}
		vrt.Assert(err != nil, "C14.trunc "+what+" truncated input never succeeds")
		var werr *WantLargerBufferError
		ok := errors.As(err, &werr)
		vrt.Assert(ok, "C14.trunc "+what+" error is WantLargerBufferError")
		vrt.Assert(werr.WantedBufSize > l, "C14.trunc "+what+" wanted size larger than given")
		vrt.Assert(werr.WantedBufSize <= size, "C14.trunc "+what+" wanted size no larger than message")
		l = werr.WantedBufSize
		steps++
		vrt.Assert(steps <= 3, "C14.trunc "+what+" retry terminates within 3 steps")
	}
}

func VerifC14_Timestamp() {
	t := Timestamp(vrt.U32("t"))
	vrt.Reach("pre")
	var u Timestamp
	vrtFrame("Timestamp", &t, &u, 4)
	vrt.Assert(u == t, "C14.rt Timestamp equal")
	vrtTrunc("Timestamp", &t, func() vrtCodec { return new(Timestamp) }, 4)
}

func VerifC14_Duration() {
	d := Duration(vrt.I32("d"))
	vrt.Reach("pre")
	var u Duration
	vrtFrame("Duration", &d, &u, 4)
	vrt.Assert(u == d, "C14.rt Duration equal")
	vrtTrunc("Duration", &d, func() vrtCodec { return new(Duration) }, 4)
}

func VerifC14_Value() {
	v := Value(vrt.F64("v"))
	vrt.Reach("pre")
	var u Value
	vrtFrame("Value", &v, &u, 8)
	vrt.Assert(vrt.SameBits(float64(u), float64(v)), "C14.rt Value bit-equal (NaN payload, +-0, Inf)")
	vrtTrunc("Value", &v, func() vrtCodec { return new(Value) }, 8)
}

func VerifC14_Point() {
	p := Point{Time: Timestamp(vrt.U32("t")), Value: Value(vrt.F64("v"))}
	vrt.Reach("pre")
	var q Point
	vrtFrame("Point", &p, &q, 12)
	vrt.Assert(q.Time == p.Time, "C14.rt Point time equal")
	vrt.Assert(vrt.SameBits(float64(q.Value), float64(p.Value)), "C14.rt Point value bit-equal")
	vrtTrunc("Point", &p, func() vrtCodec { return new(Point) }, 12)
}

func VerifC14_ArchiveInfo() {
	a := ArchiveInfo{offset: vrt.U32("off"), secondsPerPoint: Duration(vrt.I32("s")), numberOfPoints: vrt.U32("n")}
	vrt.Reach("pre")
	var b ArchiveInfo
	vrtFrame("ArchiveInfo", &a, &b, 12)
	vrt.Assert(b.offset == a.offset, "C14.rt ArchiveInfo offset")
	vrt.Assert(b.secondsPerPoint == a.secondsPerPoint, "C14.rt ArchiveInfo step")
	vrt.Assert(b.numberOfPoints == a.numberOfPoints, "C14.rt ArchiveInfo count")
	vrtTrunc("ArchiveInfo", &a, func() vrtCodec { return new(ArchiveInfo) }, 12)
}

func vrtMaxLen() int {
	if vrt.Tier() == 1 {
		return 6
	}
	return 3
}

func VerifC14_Points() {
	n := vrt.Choose("n", vrtMaxLen()+1)
	pp := make(Points, n)
	for i := range pp {
		pp[i] = Point{Time: Timestamp(vrt.U32(vrt.N("t", i))), Value: Value(vrt.F64(vrt.N("v", i)))}
	}
	vrt.Reach("pre")
	var qq Points
	vrtFrame("Points", &pp, &qq, 8+12*n)
	vrt.Assert(len(qq) == n, "C14.rt Points length")
	for i := range pp {
		vrt.Assert(qq[i].Time == pp[i].Time, "C14.rt Points time equal")
		vrt.Assert(vrt.SameBits(float64(qq[i].Value), float64(pp[i].Value)), "C14.rt Points value bit-equal")
	}
	vrtTrunc("Points", &pp, func() vrtCodec { return new(Points) }, 8+12*n)
}

// VerifC14_TimeSeries: a series as fetches produce them: step > 0, until >= from,
// len(values) == (until-from)/step.  from and step are arbitrary; until = from + n*step + m
// with 0 <= m < step presented multiplicatively (DESIGN section 2).
func VerifC14_TimeSeries() {
	n := vrt.Choose("n", vrtMaxLen()+1)
	from := vrt.U32("from")
	step := vrt.I32("step")
	vrt.Assume(step > 0)
	span := int64(n) * int64(step)
	vrt.Assume(int64(from)+span <= 0xffffffff) // spans of 2^31 s and more are included
	until := from + uint32(span)
	vals := make([]Value, n)
	for i := range vals {
		vals[i] = Value(vrt.F64(vrt.N("v", i)))
	}
	ts := &TimeSeries{fromTime: Timestamp(from), untilTime: Timestamp(until), step: Duration(step), values: vals}
	vrt.Reach("pre")
	us := &TimeSeries{}
	vrtFrame("TimeSeries", ts, us, 12+8*n)
	vrt.Assert(us.fromTime == ts.fromTime, "C14.rt TimeSeries from")
	vrt.Assert(us.untilTime == ts.untilTime, "C14.rt TimeSeries until")
	vrt.Assert(us.step == ts.step, "C14.rt TimeSeries step")
	vrt.Assert(len(us.values) == n, "C14.rt TimeSeries length")
	for i := range vals {
		vrt.Assert(vrt.SameBits(float64(us.values[i]), float64(vals[i])), "C14.rt TimeSeries value bit-equal")
	}
	vrtTrunc("TimeSeries", ts, func() vrtCodec { return &TimeSeries{} }, 12+8*n)
}

// vrtLayout builds an accepted header with A archives: steps from a concrete set, point
// counts symbolic.  Returns nil when the real validation rejects the combination.
func vrtLayout(maxA int) *Header {
	steps := []Duration{1, 60}
	na := 1 + vrt.Choose("A", maxA)
	s := steps[vrt.Choose("S0", len(steps))]
	var list ArchiveInfoList
	for i := 0; i < na; i++ {
		n := vrt.U32(vrt.N("N", i))
		vrt.Assume(n >= 1)
		vrt.Assume(n <= 100000)
		list = append(list, NewArchiveInfo(s, n))
		s *= Duration(2 + vrt.Choose(vrt.N("r", i), 2))
	}
	m := AggregationMethod(vrt.Int("method"))
	vrt.Assume(m >= 1)
	vrt.Assume(m <= 6)
	xff := vrt.F32("xff")
	h, err := NewHeader(m, xff, list)
	if err != nil {
		return nil
	}
	return h
}

func VerifC14_Header() {
	maxA := 2
	if vrt.Tier() == 1 {
		maxA = 3
	}
	h := vrtLayout(maxA)
	if h == nil {
		return
	}
	vrt.Reach("pre")
	na := len(h.archiveInfoList)
	g := &Header{}
	vrtFrame("Header", h, g, 16+12*na)
	vrt.Assert(g.aggregationMethod == h.aggregationMethod, "C14.rt Header method")
	vrt.Assert(g.maxRetention == h.maxRetention, "C14.rt Header maxRetention")
	vrt.Assert(vrt.SameBits32(g.xFilesFactor, h.xFilesFactor), "C14.rt Header xFilesFactor bit-equal")
	vrt.Assert(g.archiveCount == h.archiveCount, "C14.rt Header archiveCount")
	vrt.Assert(len(g.archiveInfoList) == na, "C14.rt Header list length")
	for i := 0; i < na; i++ {
		vrt.Assert(g.archiveInfoList[i].offset == h.archiveInfoList[i].offset, "C14.rt Header archive offset")
		vrt.Assert(g.archiveInfoList[i].secondsPerPoint == h.archiveInfoList[i].secondsPerPoint, "C14.rt Header archive step")
		vrt.Assert(g.archiveInfoList[i].numberOfPoints == h.archiveInfoList[i].numberOfPoints, "C14.rt Header archive count")
	}
}

func VerifC14_HeaderTrunc() {
	maxA := 2
	if vrt.Tier() == 1 {
		maxA = 3
	}
	h := vrtLayout(maxA)
	if h == nil {
		return
	}
	vrt.Reach("pre")
	na := len(h.archiveInfoList)
	vrtTrunc("Header", h, func() vrtCodec { return &Header{} }, 16+12*na)
}

// VerifC14_Concat: two messages concatenated decode in sequence.
func VerifC14_Concat() {
	p := Point{Time: Timestamp(vrt.U32("t")), Value: Value(vrt.F64("v"))}
	n := vrt.Choose("n", 3)
	pp := make(Points, n)
	for i := range pp {
		pp[i] = Point{Time: Timestamp(vrt.U32(vrt.N("pt", i))), Value: Value(vrt.F64(vrt.N("pv", i)))}
	}
	d := Duration(vrt.I32("d"))
	vrt.Reach("pre")
	buf := pp.AppendTo(nil)
	buf = p.AppendTo(buf)
	buf = d.AppendTo(buf)
	var qq Points
	var q Point
	var e Duration
	rest, err := qq.TakeFrom(buf)
	vrt.Assert(err == nil, "C14.concat first message decodes")
	rest, err = q.TakeFrom(rest)
	vrt.Assert(err == nil, "C14.concat second message decodes")
	rest, err = e.TakeFrom(rest)
	vrt.Assert(err == nil, "C14.concat third message decodes")
	vrt.Assert(len(rest) == 0, "C14.concat nothing left over")
	vrt.Assert(len(qq) == n, "C14.concat points length")
	for i := range pp {
		vrt.Assert(qq[i].Time == pp[i].Time, "C14.concat points time")
		vrt.Assert(vrt.SameBits(float64(qq[i].Value), float64(pp[i].Value)), "C14.concat points value")
	}
	vrt.Assert(q.Time == p.Time, "C14.concat point time")
	vrt.Assert(vrt.SameBits(float64(q.Value), float64(p.Value)), "C14.concat point value")
	vrt.Assert(e == d, "C14.concat duration")
}

func vrtAsWant(err error, target **WantLargerBufferError) bool { return errors.As(err, target) }
