package whispertool

import "os"

// C13 — exclusive access.  The schedule quantifier (concurrent sessions) is delivered by
// flock(2) and is not explored; decided here: what whispertool must do for that guarantee to
// apply - the lock is taken before any read, lives exactly as long as the handle, and a
// failed Open/Create keeps the file neither open nor locked.

func vrtHostileSizes() []int {
	if vrt.Tier() == 1 {
		return []int{0, 1, 3, 15, 16, 17, 27, 28, 29, 39, 40, 41, 52, 64}
	}
	return []int{0, 3, 15, 16, 27, 28, 40}
}

// VerifC13_Open: Open on an arbitrary (possibly corrupt, truncated) file.
func VerifC13_Open() {
	sizes := vrtHostileSizes()
	n := sizes[vrt.Choose("size", len(sizes))]
	b := vrt.Bytes("b", n)
	path := vrt.TempFile("c13.wsp", b)
	vrt.Reach("pre")
	w, err := Open(path)
	if err != nil {
		vrt.Reach("failed")
		vrt.Assert(w == nil, "C13.leak failed Open returns no handle")
		vrt.Assert(vrt.OpenFDs() == 0, "C13.leak failed Open leaves no descriptor open")
		vrt.Assert(!vrt.IsLocked(path), "C13.leak failed Open leaves the file unlocked")
		return
	}
	vrt.Reach("opened")
	vrt.Assert(vrt.OpenFDs() == 1, "C13.held exactly one descriptor per handle")
	vrt.Assert(vrt.IsLocked(path), "C13.held a default handle holds the exclusive lock")
	vrt.Assert(vrt.LockedBeforeFirstRead(), "C13.held [static] the lock was taken before the first read of the file")
	vrt.Assert(w.Close() == nil, "C13.life Close succeeds")
	vrt.Assert(vrt.OpenFDs() == 0, "C13.life Close closes the descriptor")
	vrt.Assert(!vrt.IsLocked(path), "C13.life Close releases the lock")
}

// VerifC13_Create: Create with default options holds the lock; a Create that fails after the
// descriptor was obtained leaves nothing open or locked.
func VerifC13_Create() {
	list, _ := ParseArchiveInfoList("1s:2s,2s:6s")
	mode := vrt.Choose("mode", 3)
	path := vrt.NoFile("c13c.wsp")
	vrt.Reach("pre")
	switch mode {
	case 0: // plain create
		w, err := Create(path, list, Sum, 0.5)
		vrt.Assert(err == nil, "C13.create succeeds")
		vrt.Assert(vrt.OpenFDs() == 1, "C13.held exactly one descriptor per created handle")
		vrt.Assert(vrt.IsLocked(path), "C13.held a created handle holds the exclusive lock")
		// no public read/write method drops the lock or the descriptor
		_, _ = w.FetchFromArchive(0, 1, 2, 1000)
		_, _ = w.GetAllRawUnsortedPoints(1)
		_ = w.UpdatePointForArchive(ArchiveIDBest, 999, 1, 1000)
		vrt.Assert(vrt.OpenFDs() == 1, "C13.life reads and writes keep the descriptor")
		vrt.Assert(vrt.IsLocked(path), "C13.life reads and writes keep the lock")
		vrt.Assert(w.Sync() == nil, "C13.create sync")
		vrt.Assert(vrt.IsLocked(path), "C13.life Sync keeps the lock")
		vrt.Assert(w.Close() == nil, "C13.create close")
		vrt.Assert(vrt.OpenFDs() == 0, "C13.life Close closes the descriptor (create)")
		vrt.Assert(!vrt.IsLocked(path), "C13.life Close releases the lock (create)")
	case 1: // descriptor obtained, then the file cannot be sized (read-only descriptor)
		w, err := Create(path, list, Sum, 0.5, WithOpenFileFlag(os.O_RDONLY|os.O_CREATE))
		vrt.Assert(err != nil, "C13.leak Create on an unwritable descriptor fails")
		vrt.Assert(w == nil, "C13.leak failed Create returns no handle")
		vrt.Assert(vrt.OpenFDs() == 0, "C13.leak failed Create leaves no descriptor open")
		vrt.Assert(!vrt.IsLocked(path), "C13.leak failed Create leaves the file unlocked")
	case 2: // without flock: the only way to get an unlocked handle
		w, err := Create(path, list, Sum, 0.5, WithoutFlock())
		vrt.Assert(err == nil, "C13.create (without flock) succeeds")
		vrt.Assert(!vrt.IsLocked(path), "C13.held WithoutFlock takes no lock")
		vrt.Assert(w.Close() == nil, "C13.create close (without flock)")
		vrt.Assert(vrt.OpenFDs() == 0, "C13.life Close closes the descriptor (without flock)")
	}
}

// VerifC13_Second: while a default handle is open, a second Open (or Create over it) of the same
// file does not return: it waits for the lock (in the sequential model: it blocks forever, which
// ends the path).  Returning - with or without an error - while the first handle is still open
// is a violation; so is returning a handle that does not hold the lock.
func VerifC13_Second() {
	list, _ := ParseArchiveInfoList("1s:2s")
	path := vrt.NoFile("c13s.wsp")
	w1, err := Create(path, list, Sum, 0.5)
	vrt.Assume(err == nil)
	vrt.Assert(w1.Sync() == nil, "C13.second first session syncs")
	vrt.Reach("pre")
	vrt.ExpectBlock()
	w2, err2 := Open(path)
	// only reached if the second Open did not wait
	vrt.Assert(w2 == nil && err2 != nil && false, "C13.second a second Open waits until the first handle is closed")
}
