package whispertool

// C03 — write acceptance and routing.

func vrtMaxBatch() int {
	if vrt.Tier() == 1 {
		return 3
	}
	return 2
}

// VerifC03_Extract: extractPoints on an arbitrary time-sorted batch: current = exactly the
// points younger than the retention, remaining = the others, order kept, nothing lost.
func VerifC03_Extract() {
	n := vrt.Choose("n", vrtMaxBatch()+2)
	pts := make([]Point, n)
	for i := range pts {
		pts[i] = Point{Time: Timestamp(vrt.U32(vrt.N("t", i))), Value: Value(vrt.F64(vrt.N("v", i)))}
		if i > 0 {
			vrt.Assume(pts[i-1].Time <= pts[i].Time)
		}
	}
	now := Timestamp(vrt.U32("now"))
	ret := Duration(vrt.I32("ret"))
	vrt.Assume(ret > 0)
	vrt.Assume(int64(now) >= int64(ret))
	vrt.Reach("pre")
	cur, rem := extractPoints(pts, now, ret)
	// oracle: sorted => the stale points are a prefix
	k := 0
	for _, p := range pts {
		if int64(p.Time) <= int64(now)-int64(ret) {
			k++
		}
	}
	vrt.Assert(len(cur) == n-k, "C03.extract current = points younger than the retention (count)")
	vrt.Assert(len(rem) == k, "C03.extract remaining = points too old (count)")
	vrt.Assert(len(cur)+len(rem) == n, "C03.extract nothing lost or duplicated")
	for i := 0; i < len(cur); i++ {
		if k+i < n {
			vrt.Assert(cur[i].Time == pts[k+i].Time, "C03.extract current keeps order (time)")
			vrt.Assert(vrt.SameBits(float64(cur[i].Value), float64(pts[k+i].Value)), "C03.extract current keeps order (value)")
		}
	}
	for i := 0; i < len(rem); i++ {
		if i < n {
			vrt.Assert(rem[i].Time == pts[i].Time, "C03.extract remaining keeps order (time)")
		}
	}
}

func vrtUnchanged(pre, post *vrtSlots, ai int, what string) {
	for k := range pre.t[ai] {
		vrt.Assert(post.t[ai][k] == pre.t[ai][k], what+" (time)")
		vrt.Assert(vrt.SameBits(float64(post.v[ai][k]), float64(pre.v[ai][k])), what+" (value)")
	}
}

// VerifC03_Single: a single update is accepted exactly when now-maxRetention < t <= now and is
// stored in the finest archive whose retention is at least the point's age.
func VerifC03_Single() {
	h := vrtChooseHeaderSmall(Sum, 0.5)
	now := vrtInstant(h, "now")
	vrtAssumeClock(h, now)
	img, pre := vrtInvImage(h, "s", now)
	w := vrtOpenImage("c03s.wsp", img)
	na := len(h.archiveInfoList)
	t := vrtInstant(h, "t")
	vrtAssumeNear(h, now, t)
	v := Value(vrt.F64("v"))
	vrt.Reach("pre")
	err := w.UpdatePointForArchive(ArchiveIDBest, t, v, now)
	inRange := int64(t) <= int64(now)
	if int64(t) <= int64(now)-int64(h.maxRetention) {
		inRange = false
	}
	post := vrtRawSlots(w, h)
	if !inRange {
		vrt.Reach("rejected")
		vrt.Assert(err != nil, "C03.single out-of-range update rejected")
		for ai := 0; ai < na; ai++ {
			vrtUnchanged(pre, post, ai, "C03.single rejected update changes nothing")
		}
		return
	}
	vrt.Reach("accepted")
	vrt.Assert(err == nil, "C03.single in-range update accepted")
	tgt := na - 1
	for i := na - 1; i >= 0; i-- {
		a := h.archiveInfoList[i]
		if int64(a.secondsPerPoint)*int64(a.numberOfPoints) >= int64(now)-int64(t) {
			tgt = i
		}
	}
	a := h.archiveInfoList[tgt]
	at := refAlign(t, a.secondsPerPoint)
	b := pre.t[tgt][0]
	if b == 0 {
		b = at
	}
	j := refIndex(b, at, a.secondsPerPoint, a.numberOfPoints)
	vrt.Assert(post.t[tgt][j] == at, "C03.single stored in the finest archive covering its age (time)")
	vrt.Assert(vrt.SameBits(float64(post.v[tgt][j]), float64(v)), "C03.single stored in the finest archive covering its age (value)")
	for f := 0; f < tgt; f++ {
		vrtUnchanged(pre, post, f, "C03.single finer archives untouched")
	}
}

// vrtTarget: archive that must receive p directly (-1: none).
func vrtTarget(h *Header, id int, now Timestamp, p Point) int {
	na := len(h.archiveInfoList)
	for i := 0; i < na; i++ {
		if id != ArchiveIDBest {
			if id != i {
				continue
			}
		}
		a := h.archiveInfoList[i]
		if int64(now)-int64(p.Time) < int64(a.secondsPerPoint)*int64(a.numberOfPoints) {
			return i
		}
	}
	return -1
}

// VerifC03_Batch: a batch in any order with any mixture of ages: every point in range is
// stored in its target archive, the last supplied wins within a slot, points too old for
// every candidate change nothing and archives finer than every target are untouched.
func VerifC03_Batch() {
	// thorough tier: the same layouts with batches of up to 3 points
	h := vrtChooseHeaderFrom([]string{"1s:2s", "5s:15s", "1s:2s,2s:6s"}, Sum, 0.5)
	vrtC03Batch(h, 1+vrt.Choose("batch", vrtMaxBatch()))
}

// VerifC03_Batch3: batches of exactly three points on a single small ring (orderings such as
// "newest first with a duplicate" need three points).
func VerifC03_Batch3() {
	vrtC03Batch(vrtChooseHeaderFrom([]string{"1s:3s"}, Sum, 0.5), 3)
}

func vrtC03Batch(h *Header, nb int) {
	now := vrtInstant(h, "now")
	vrtAssumeClock(h, now)
	img, pre := vrtInvImage(h, "s", now)
	w := vrtOpenImage("c03b.wsp", img)
	na := len(h.archiveInfoList)
	id := -1 + vrt.Choose("id", na+1)
	pts := make([]Point, nb)
	for i := range pts {
		pts[i] = Point{Time: vrtInstant(h, vrt.N("pt", i)), Value: Value(vrt.F64(vrt.N("pv", i)))}
		vrtAssumeNear(h, now, pts[i].Time)
	}
	in := make([]Point, nb)
	copy(in, pts)
	vrt.Reach("pre")
	err := w.UpdatePointsForArchive(pts, id, now)
	vrt.Assert(err == nil, "C03.batch accepted")
	post := vrtRawSlots(w, h)
	tg := make([]int, nb)
	minTgt := na
	for i, p := range in {
		tg[i] = vrtTarget(h, id, now, p)
		if tg[i] >= 0 {
			if tg[i] < minTgt {
				minTgt = tg[i]
			}
		}
	}
	for i, p := range in {
		if tg[i] < 0 {
			continue
		}
		a := h.archiveInfoList[tg[i]]
		at := refAlign(p.Time, a.secondsPerPoint)
		// slot positions are relative to the archive's base as stored now (a first write - direct
		// or by propagation from a finer archive - sets it; later laps never change an index)
		b := post.t[tg[i]][0]
		vrt.Assert(b != 0, "C03.batch target archive has a base interval after the write")
		j := refIndex(b, at, a.secondsPerPoint, a.numberOfPoints)
		replaced := false
		want := p.Value
		for q := range in {
			if tg[q] != tg[i] {
				continue
			}
			aq := refAlign(in[q].Time, a.secondsPerPoint)
			if aq > at {
				if refIndex(b, aq, a.secondsPerPoint, a.numberOfPoints) == j {
					replaced = true
				}
			}
			if aq == at {
				if q > i {
					want = in[q].Value
				}
			}
		}
		if replaced {
			continue
		}
		vrt.Assert(post.t[tg[i]][j] == at, "C03.batch in-range point stored in its target archive")
		// known finding C03-later-timestamp-wins: two points of one slot with different raw
		// times resolve to the later timestamp, not the later supplied
		diffRaw := false
		for q := range in {
			if tg[q] == tg[i] {
				if refAlign(in[q].Time, a.secondsPerPoint) == at {
					if in[q].Time != p.Time {
						diffRaw = true
					}
				}
			}
		}
		vrt.Known("C03-later-timestamp-wins", diffRaw)
		vrt.Assert(vrt.SameBits(float64(post.v[tg[i]][j]), float64(want)), "C03.batch same slot resolves to the value supplied last")
		vrt.KnownOff("C03-later-timestamp-wins")
	}
	// archives finer than every target receive nothing
	for f := 0; f < na; f++ {
		if f < minTgt {
			vrtUnchanged(pre, post, f, "C03.batch archive finer than every target untouched")
		}
	}
}
