package cmd

import (
	wt "github.com/hnakamur/whispertool"
)

// Shared helpers for command harnesses (package cmd): layouts, images built through the
// exported library API, an io.Writer for text output.

type vrtSlots struct {
	t [][]wt.Timestamp
	v [][]wt.Value
}

func vrtCmdHeader(ls []string, m wt.AggregationMethod, xff float32) *wt.Header {
	txt := ls[vrt.Choose("layout", len(ls))]
	list, err := wt.ParseArchiveInfoList(txt)
	if err != nil {
		panic("harness layout rejected: " + txt)
	}
	h, err := wt.NewHeader(m, xff, list)
	if err != nil {
		panic("harness layout rejected: " + txt)
	}
	return h
}

func vrtCmdLayouts() []string {
	// both tiers use the same two layouts (copy, sum-copy, sum-diff are already at 5-20 min)
	return []string{"1s:2s", "1s:2s,2s:4s"}
}

// vrtCmdLayoutsWide: the cheaper command harnesses (view, view-raw, remote reads) add
// a 3-slot ring and a 5-second step in the thorough tier.
func vrtCmdLayoutsWide() []string {
	if vrt.Tier() == 1 {
		return []string{"1s:2s", "1s:2s,2s:4s", "1s:3s", "5s:10s"}
	}
	return vrtCmdLayouts()
}

func vrtCmdInstant(h *wt.Header, name string) wt.Timestamp {
	al := h.ArchiveInfoList()
	top := len(al) - 1
	k := vrt.U32(name + "_k")
	t := int64(k) * int64(al[top].SecondsPerPoint())
	for i := top - 1; i >= 0; i-- {
		r := int64(al[i+1].SecondsPerPoint() / al[i].SecondsPerPoint())
		d := vrt.U32(vrt.N(name+"_d", i))
		vrt.Assume(int64(d) < r)
		t += int64(d) * int64(al[i].SecondsPerPoint())
	}
	s0 := int64(al[0].SecondsPerPoint())
	if s0 > 1 {
		m := vrt.U32(name + "_m")
		vrt.Assume(int64(m) < s0)
		t += int64(m)
	}
	vrt.Assume(t <= 0xffffffff)
	return wt.Timestamp(t)
}

func vrtCmdAssumeClock(h *wt.Header, now wt.Timestamp) {
	al := h.ArchiveInfoList()
	last := al[len(al)-1]
	vrt.Assume(int64(now) <= 0xffffffff-4*int64(last.SecondsPerPoint()))
	vrt.Assume(int64(now) >= int64(h.MaxRetention())+2*int64(last.SecondsPerPoint()))
}

func vrtCmdAssumeNear(now, t wt.Timestamp) {
	if t != 0 {
		d := int64(now) - int64(t)
		vrt.Assume(d <= 0x3fffffff-0x100000)
		vrt.Assume(d >= -(0x3fffffff - 0x100000))
	}
}

// vrtCmdInvImage: a file image satisfying the ring invariant by construction (see the
// library harness vrtInvImage).
func vrtCmdInvImage(h *wt.Header, tag string, now wt.Timestamp) ([]byte, *vrtSlots) {
	img := h.AppendTo(nil)
	sl := &vrtSlots{}
	for ai, a := range h.ArchiveInfoList() {
		n := int(a.NumberOfPoints())
		s := int64(a.SecondsPerPoint())
		ts := make([]wt.Timestamp, n)
		vs := make([]wt.Value, n)
		// quick tier: every archive has been written at least once; the thorough tier also covers
		// never-written archives (and the absent-destination path creates a never-written file)
		written := true
		if vrt.Tier() == 1 && len(h.ArchiveInfoList()) == 1 {
			written = vrt.Choose(vrt.N(tag+"written", ai), 2) == 1
		}
		var b int64
		if written {
			kb := vrt.U32(vrt.N(tag+"kB", ai))
			b = int64(kb) * s
			vrt.Assume(b > 0)
			vrt.Assume(b <= 0xffffffff)
			vrtCmdAssumeNear(now, wt.Timestamp(b))
		}
		for j := 0; j < n; j++ {
			vs[j] = wt.Value(vrt.F64(vrt.N(vrt.N(tag+"V", ai), j)))
			if !written {
				ts[j] = 0
			} else if j == 0 {
				ts[j] = wt.Timestamp(b)
			} else {
				lap := int64(vrt.I32(vrt.N(vrt.N(tag+"lap", ai), j)))
				empty := vrt.Bool(vrt.N(vrt.N(tag+"empty", ai), j))
				t := b + (int64(j)+int64(n)*lap)*s
				vrt.Assume(t > 0)
				vrt.Assume(t <= 0xffffffff)
				vrtCmdAssumeNear(now, wt.Timestamp(t))
				ts[j] = wt.Timestamp(vrt.IteU32(empty, 0, uint32(t)))
			}
			p := wt.Point{Time: ts[j], Value: vs[j]}
			img = p.AppendTo(img)
		}
		sl.t = append(sl.t, ts)
		sl.v = append(sl.v, vs)
	}
	return img, sl
}

func vrtSameValue(a, b wt.Value) bool {
	if a.IsNaN() {
		return b.IsNaN()
	}
	if b.IsNaN() {
		return false
	}
	return a == b
}

// vrtCmdSecondImage: the second file of a comparison.  For all-archive selections on a
// multi-archive layout (thorough tier) it is a concrete never-written file, so that the product
// of per-slot case splits of two fully symbolic multi-archive files does not arise.
func vrtCmdSecondImage(h *wt.Header, tag string, now wt.Timestamp, allOnMulti bool) []byte {
	if allOnMulti {
		return vrtConcreteImage(h)
	}
	img, _ := vrtCmdInvImage(h, tag, now)
	return img
}
