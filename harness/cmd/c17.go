package cmd

import (
	"path/filepath"

	wt "github.com/hnakamur/whispertool"
)

// VerifC17_Workers: the functions handed to errgroup.Go by sum, diff and copy write pairwise
// disjoint locations (index-disjoint slice elements, distinct captured variables), so running
// them concurrently equals running them one by one.
func VerifC17_Workers() {
	h := vrtCmdHeader([]string{"1s:2s"}, wt.Sum, 0.5)
	now := vrtCmdInstant(h, "now")
	vrtCmdAssumeClock(h, now)
	vrt.SetClock(uint32(now))
	img := vrtConcreteImage(h)
	a := vrt.TempFile("base/item1/a.wsp", img)
	vrt.TempFile("base/item1/b.wsp", img)
	vrt.TempFile("base/item1/c.wsp", img)
	d := vrt.TempFile("dst/item1/a.wsp", img)
	base := filepath.Dir(filepath.Dir(a))
	dbase := filepath.Dir(filepath.Dir(d))
	vrt.Reach("pre")
	switch vrt.Choose("cmd", 4) {
	case 0:
		_, _, err := sumWhisperFileLocal(base, "item1", "*.wsp", ArchiveIDAll, 0, now, now)
		vrt.Assert(err == nil, "C17.workers sum runs")
	case 1:
		c := &DiffCommand{SrcBase: base, DestBase: dbase, SrcRelPath: "item1/a.wsp", ArchiveID: ArchiveIDAll}
		_ = c.diffOneFile("item1/a.wsp", "item1/a.wsp", vrt.Writer())
	case 2:
		c := &CopyCommand{SrcBase: base, DestBase: dbase, SrcRelPath: "item1/a.wsp", ArchiveID: ArchiveIDAll, AggregationMethod: wt.Sum, XFilesFactor: 0.5, ArchiveInfoList: h.ArchiveInfoList()}
		_ = c.copyOneFile("item1/a.wsp", "item1/a.wsp", vrt.Writer())
	case 3:
		c := &SumDiffCommand{SrcBase: base, DestBase: dbase, SrcPattern: "*.wsp", DestRelPath: "a.wsp", ArchiveID: ArchiveIDAll}
		_ = c.sumDiffItem("item1", vrt.Writer())
	}
	vrt.Assert(vrt.WorkerConflicts() == 0, "C17.workers errgroup workers write pairwise disjoint locations")
}
