package cmd

import (
	"path/filepath"

	wt "github.com/hnakamur/whispertool"
)

// C18 — view and view-raw show exactly what is stored.  The text of a line (time and float
// rendering) is produced by the standard library and is not modelled: the check covers which
// records are printed, with which archive id, instant and value, in which order.

func vrtC18Setup() (*wt.Header, wt.Timestamp, string, int, wt.Timestamp) {
	h := vrtCmdHeader(vrtCmdLayoutsWide(), wt.Sum, 0.5)
	now := vrtCmdInstant(h, "now")
	vrtCmdAssumeClock(h, now)
	vrt.SetClock(uint32(now))
	img, _ := vrtCmdInvImage(h, "s", now)
	sp := vrt.TempFile("src/a.wsp", img)
	aid := vrtArchiveChoice(len(h.ArchiveInfoList()))
	from := vrtCmdInstant(h, "from")
	vrt.Assume(from <= now)
	return h, now, sp, aid, from
}

// VerifC18_View: header record (when requested) followed by exactly one record per slot of
// each selected archive's window, in archive then time order, carrying the fetched value.
func VerifC18_View() {
	h, now, sp, aid, from := vrtC18Setup()
	showHeader := vrt.Choose("header", 2) == 1
	c := &ViewCommand{SrcBase: filepath.Dir(sp), SrcRelPath: "a.wsp", ArchiveID: aid, From: from, ShowHeader: showHeader}
	vrt.Reach("pre")
	err := c.execute(vrt.Writer())
	vrt.Assert(err == nil, "C18.view succeeds")
	db, e := wt.Open(sp)
	vrt.Assume(e == nil)
	rec := 0
	if showHeader {
		vrt.Assert(!vrt.LogHasPrefix(0, "archive:"), "C18.view header comes first")
		rec = 1
	}
	for i := range h.ArchiveInfoList() {
		if aid != ArchiveIDAll {
			if aid != i {
				continue
			}
		}
		ts, e2 := db.FetchFromArchive(i, from, now, now)
		vrt.Assume(e2 == nil)
		if ts == nil {
			continue
		}
		for k, v := range ts.Values() {
			t := ts.FromTime().Add(wt.Duration(k) * ts.Step())
			vrt.Assert(vrt.LogHasPrefix(rec, "archive:"), "C18.view one point record per fetched slot")
			vrt.Assert(vrt.LogArgInt(rec, 0) == int64(i), "C18.view record carries the archive id")
			vrt.Assert(vrt.LogArgU32(rec, 1) == uint32(t), "C18.view record carries the slot's time, in time order")
			vrt.Assert(vrtSameValue(wt.Value(vrt.LogArgF64(rec, 2)), v), "C18.view record carries the fetched value")
			rec++
		}
	}
	vrt.Assert(vrt.LogLen() == rec, "C18.view nothing else is printed")
}

// VerifC18_Raw: the physical slots of each selected archive restricted to from < T <= until
// (no lower bound when from = 0), in physical order, or in time order with -sort.
func VerifC18_Raw() {
	h, now, sp, aid, from := vrtC18Setup()
	if vrt.Choose("fromZero", 2) == 1 {
		from = 0
	}
	sorts := vrt.Choose("sort", 2) == 1
	c := &ViewRawCommand{SrcBase: filepath.Dir(sp), SrcRelPath: "a.wsp", ArchiveID: aid, From: from, SortsByTime: sorts}
	vrt.Reach("pre")
	err := c.execute(vrt.Writer())
	vrt.Assert(err == nil, "C18.raw succeeds")
	db, e := wt.Open(sp)
	vrt.Assume(e == nil)
	rec := 0
	for i, a := range h.ArchiveInfoList() {
		if aid != ArchiveIDAll {
			if aid != i {
				continue
			}
		}
		pts, e2 := db.GetAllRawUnsortedPoints(i)
		vrt.Assume(e2 == nil)
		until := now
		if until == from {
			until = until.Add(a.SecondsPerPoint())
		}
		first := rec
		for _, p := range pts {
			keep := p.Time <= until
			if from != 0 {
				if p.Time <= from {
					keep = false
				}
			}
			if !keep {
				continue
			}
			vrt.Assert(vrt.LogHasPrefix(rec, "archive:"), "C18.raw one record per physical slot in range")
			vrt.Assert(vrt.LogArgInt(rec, 0) == int64(i), "C18.raw record carries the archive id")
			if !sorts {
				vrt.Assert(vrt.LogArgU32(rec, 1) == uint32(p.Time), "C18.raw physical order, stored time")
				vrt.Assert(vrtSameValue(wt.Value(vrt.LogArgF64(rec, 2)), p.Value), "C18.raw stored value")
			}
			rec++
		}
		if sorts {
			for r := first + 1; r < rec; r++ {
				vrt.Assert(vrt.LogArgU32(r-1, 1) <= vrt.LogArgU32(r, 1), "C18.raw -sort orders by time")
			}
		}
	}
	vrt.Assert(vrt.LogLen() == rec, "C18.raw nothing else is printed")
}
