package cmd

import (
	"errors"
	"path/filepath"

	wt "github.com/hnakamur/whispertool"
)

// C11 — sum-copy stores the sum; sum-diff agrees with it.

func VerifC11_SumCopy() {
	vrtC11SumCopy([]string{"1s:2s"}, 2, true)
}

// VerifC11_SumCopy2: the 2-level layout with one source file and an existing destination
// (every archive selection; for the all-archive selection the destination is a concrete
// never-written file).
func VerifC11_SumCopy2() {
	vrtC11SumCopy([]string{"1s:2s,2s:4s"}, 1, false)
}

func vrtC11SumCopy(ls []string, nfMax int, allowAbsent bool) {
	h := vrtCmdHeader(ls, wt.Sum, 0.5)
	na := len(h.ArchiveInfoList())
	now := vrtCmdInstant(h, "now")
	vrtCmdAssumeClock(h, now)
	vrt.SetClock(uint32(now))
	nf := 1 + vrt.Choose("files", nfMax)
	aid := vrtArchiveChoice(na)
	allOnMulti := aid == ArchiveIDAll && na > 1
	names := []string{"a.wsp", "b.wsp"}
	var paths []string
	for f := 0; f < nf; f++ {
		var img []byte
		if f == 0 {
			img, _ = vrtCmdInvImage(h, vrt.N("f", f), now)
		} else {
			img = vrtCmdSecondImage(h, vrt.N("f", f), now, allOnMulti)
		}
		paths = append(paths, vrt.TempFile("base/item1/"+names[f], img))
	}
	base := filepath.Dir(filepath.Dir(paths[0]))
	destAbsent := false
	if allowAbsent {
		destAbsent = vrt.Choose("destAbsent", 2) == 1
	}
	var dp string
	if destAbsent {
		dp = vrt.NoFile("dst/item1/sum.wsp")
	} else {
		dimg := vrtCmdSecondImage(h, "d", now, allOnMulti)
		dp = vrt.TempFile("dst/item1/sum.wsp", dimg)
	}
	dbase := filepath.Dir(filepath.Dir(dp))
	var from wt.Timestamp // default window in the quick tier
	if vrt.Tier() == 1 {
		from = vrtCmdInstant(h, "from")
		vrt.Assume(from <= now)
	}
	vrt.Reach("pre")

	c := &SumCopyCommand{SrcBase: base, SrcPattern: "*.wsp", DestBase: dbase, DestRelPath: "sum.wsp", ArchiveID: aid, From: from,
		AggregationMethod: wt.Sum, XFilesFactor: 0.5, ArchiveInfoList: h.ArchiveInfoList()}
	err := c.sumCopyItem("item1", vrt.Writer())
	vrt.Assert(err == nil, "C11 sum-copy succeeds")
	vrt.Reach("copied")
	_, want, e := sumWhisperFileLocal(base, "item1", "*.wsp", aid, from, now, now)
	vrt.Assume(e == nil)
	ddb, e2 := wt.Open(dp)
	vrt.Assert(e2 == nil, "C11 destination exists and is valid after sum-copy")
	for i := 0; i < na; i++ {
		if aid != ArchiveIDAll {
			if aid != i {
				continue
			}
		}
		dts, e3 := ddb.FetchFromArchive(i, from, now, now)
		vrt.Assert(e3 == nil, "C11 destination fetch succeeds")
		if want[i] == nil {
			continue
		}
		wv := want[i].Values()
		vrt.Assert(dts != nil, "C11 destination has a series where the sum has one")
		dv := dts.Values()
		vrt.Assert(len(dv) == len(wv), "C11 same window shape")
		for k := range wv {
			if k < len(dv) {
				vrt.Assert(vrtSameValue(dv[k], wv[k]), "C11 destination holds exactly the sum (NaN included)")
			}
		}
	}
	_ = ddb.Close()
	// consequently sum-diff over the same window is clean
	d := &SumDiffCommand{SrcBase: base, SrcPattern: "*.wsp", DestBase: dbase, DestRelPath: "sum.wsp", ArchiveID: aid, From: from}
	e4 := d.sumDiffItem("item1", vrt.Writer())
	vrt.Assert(e4 == nil, "C11 sum-diff after sum-copy is clean")
}

// VerifC11_SumDiff: sum-diff reports a difference exactly when the destination deviates from
// the current sum in some slot of the window.
func VerifC11_SumDiff() {
	ls := []string{"1s:2s"}
	if vrt.Tier() == 1 {
		ls = vrtCmdLayouts()
	}
	h := vrtCmdHeader(ls, wt.Sum, 0.5)
	na := len(h.ArchiveInfoList())
	now := vrtCmdInstant(h, "now")
	vrtCmdAssumeClock(h, now)
	vrt.SetClock(uint32(now))
	nf := 1
	if vrt.Tier() == 1 && na == 1 {
		nf = 1 + vrt.Choose("files", 2)
	}
	aid := vrtArchiveChoice(na)
	allOnMulti := aid == ArchiveIDAll && na > 1
	names := []string{"a.wsp", "b.wsp"}
	var paths []string
	for f := 0; f < nf; f++ {
		var img []byte
		if f == 0 {
			img, _ = vrtCmdInvImage(h, vrt.N("f", f), now)
		} else {
			img = vrtCmdSecondImage(h, vrt.N("f", f), now, allOnMulti)
		}
		paths = append(paths, vrt.TempFile("base/item1/"+names[f], img))
	}
	base := filepath.Dir(filepath.Dir(paths[0]))
	dimg := vrtCmdSecondImage(h, "d", now, allOnMulti)
	dp := vrt.TempFile("dst/item1/sum.wsp", dimg)
	dbase := filepath.Dir(filepath.Dir(dp))
	from := vrtCmdInstant(h, "from")
	vrt.Assume(from <= now)
	destAbsent := false
	vrt.Reach("pre")
	// sum-diff before the copy: reports a difference exactly when the destination deviates
	if !destAbsent {
		d0 := &SumDiffCommand{SrcBase: base, SrcPattern: "*.wsp", DestBase: dbase, DestRelPath: "sum.wsp", ArchiveID: aid, From: from}
		e0 := d0.sumDiffItem("item1", vrt.Writer())
		_, want, e := sumWhisperFileLocal(base, "item1", "*.wsp", aid, from, now, now)
		vrt.Assume(e == nil)
		ddb0, e1 := wt.Open(dp)
		vrt.Assume(e1 == nil)
		deviates := false
		for i := 0; i < na; i++ {
			if aid != ArchiveIDAll {
				if aid != i {
					continue
				}
			}
			dts, _ := ddb0.FetchFromArchive(i, from, now, now)
			if want[i] == nil {
				continue
			}
			for k, w := range want[i].Values() {
				if !vrtSameValue(dts.Values()[k], w) {
					deviates = true
				}
			}
		}
		_ = ddb0.Close()
		if deviates {
			vrt.Assert(errors.Is(e0, ErrDiffFound), "C11 sum-diff reports a difference when the destination deviates from the sum")
		} else {
			vrt.Assert(e0 == nil, "C11 sum-diff is clean when the destination equals the sum")
		}
	}

}

// VerifC11_Multi: sum-diff over several items reports a difference when any item's destination
// deviates, whatever its position in the item order.
func VerifC11_Multi() {
	h := vrtCmdHeader([]string{"1s:2s"}, wt.Sum, 0.5)
	now := vrtCmdInstant(h, "now")
	vrtCmdAssumeClock(h, now)
	vrt.SetClock(uint32(now))
	clean := vrtConcreteImage(h)
	simg, _ := vrtCmdInvImage(h, "s", now)
	dimg, _ := vrtCmdInvImage(h, "d", now)
	pos := vrt.Choose("pos", 3)
	items := []string{"item1", "item2", "item3"}
	var base, dbase string
	for i, it := range items {
		if i == pos {
			base = filepath.Dir(filepath.Dir(vrt.TempFile("base/"+it+"/a.wsp", simg)))
			dbase = filepath.Dir(filepath.Dir(vrt.TempFile("dst/"+it+"/sum.wsp", dimg)))
		} else {
			vrt.TempFile("base/"+it+"/a.wsp", clean)
			vrt.TempFile("dst/"+it+"/sum.wsp", clean)
		}
	}
	c := &SumDiffCommand{SrcBase: base, ItemPattern: "item*", SrcPattern: "*.wsp", DestBase: dbase, DestRelPath: "sum.wsp", ArchiveID: ArchiveIDAll}
	vrt.Reach("pre")
	err := c.execute(vrt.Writer())
	sdb, e1 := wt.Open(filepath.Join(base, items[pos], "a.wsp"))
	ddb, e2 := wt.Open(filepath.Join(dbase, items[pos], "sum.wsp"))
	vrt.Assume(e1 == nil)
	vrt.Assume(e2 == nil)
	sts, _ := sdb.FetchFromArchive(0, 0, now, now)
	dts, _ := ddb.FetchFromArchive(0, 0, now, now)
	differ := false
	for k, v := range sts.Values() {
		if !vrtSameValue(v, dts.Values()[k]) {
			differ = true
		}
	}
	if differ {
		vrt.Assert(errors.Is(err, ErrDiffFound), "C11.multi one deviating item makes the whole sum-diff run report a difference")
	} else {
		vrt.Assert(err == nil, "C11.multi all items equal: clean")
	}
}
