package cmd

import (
	"net/http"
	"net/http/httptest"
	"os"
	"path/filepath"

	wt "github.com/hnakamur/whispertool"
)

// C12 — remote/local transparency, the part that is whispertool code: the real handlers and the
// real client functions are connected by an identity transport (symbolic build: the engine's
// http.Get dispatches to the handler; native build: a real httptest server), and every read must
// give the same result through the URL as from the directory.

// vrtServe starts a server for base and returns its URL.  (Intercepted by the engine.)
func vrtServe(base string) string {
	a := &app{baseDir: base}
	mux := http.NewServeMux()
	mux.HandleFunc("/view", wrapHandler(a.handleView))
	mux.HandleFunc("/view-raw", wrapHandler(a.handleViewRaw))
	mux.HandleFunc("/sum", wrapHandler(a.handleSum))
	mux.HandleFunc("/items", wrapHandler(a.handleItems))
	mux.HandleFunc("/files", wrapHandler(a.handleFiles))
	return httptest.NewServer(mux).URL
}

func vrtSameSeries(a, b *wt.TimeSeries, what string) {
	if a == nil {
		vrt.Assert(b == nil || len(b.Values()) == 0, what+": absent series stays absent or empty")
		return
	}
	vrt.Assert(b != nil, what+": series present")
	vrt.Assert(a.FromTime() == b.FromTime(), what+": same from")
	vrt.Assert(a.UntilTime() == b.UntilTime(), what+": same until")
	vrt.Assert(a.Step() == b.Step(), what+": same step")
	vrt.Assert(len(a.Values()) == len(b.Values()), what+": same length")
	for i, v := range a.Values() {
		if i < len(b.Values()) {
			vrt.Assert(vrt.SameBits(float64(v), float64(b.Values()[i])), what+": same values")
		}
	}
}

// VerifC12_View: view (the source side of diff and copy) through the URL equals the local read.
func VerifC12_View() {
	h := vrtCmdHeader(vrtCmdLayoutsWide(), wt.Sum, 0.5)
	na := len(h.ArchiveInfoList())
	now := vrtCmdInstant(h, "now")
	vrtCmdAssumeClock(h, now)
	img, _ := vrtCmdInvImage(h, "s", now)
	sp := vrt.TempFile("srv/item1/a+b&c.wsp", img)
	base := filepath.Dir(filepath.Dir(sp))
	u := vrtServe(base)
	aid := vrtArchiveChoice(na)
	from := vrtCmdInstant(h, "from")
	until := vrtCmdInstant(h, "until") // before, at or after the clock
	vrt.Assume(from <= until)
	vrt.Assume(from <= now)
	vrt.Reach("pre")
	lh, lts, lerr := readWhisperFile(base, "item1/a+b&c.wsp", aid, from, until, now)
	vrt.Assert(lerr == nil, "C12.view local read succeeds")
	// known finding: the handler dereferences an absent series (single-archive selection on a
	// multi-archive file, or a window outside an archive's retention); everything else must agree
	absent := false
	for _, ts := range lts {
		if ts == nil {
			absent = true
		}
	}
	vrt.Known("C12-remote-nil-series", absent)
	rh, rts, rerr := readWhisperFile(u, "item1/a+b&c.wsp", aid, from, until, now)
	vrt.KnownOff("C12-remote-nil-series")
	if absent {
		return
	}
	vrt.Reach("compared")
	vrt.Assert(rerr == nil, "C12.view remote read succeeds where the local one does")
	vrt.Assert(rh.ArchiveInfoList().Equal(lh.ArchiveInfoList()), "C12.view same layout")
	vrt.Assert(rh.AggregationMethod() == lh.AggregationMethod(), "C12.view same method")
	vrt.Assert(len(rts) == len(lts), "C12.view same number of series")
	for i := range lts {
		if i < len(rts) {
			vrtSameSeries(lts[i], rts[i], "C12.view")
		}
	}
}

// VerifC12_Raw: view-raw through the URL equals the local raw dump.
func VerifC12_Raw() {
	h := vrtCmdHeader(vrtCmdLayoutsWide(), wt.Sum, 0.5)
	na := len(h.ArchiveInfoList())
	now := vrtCmdInstant(h, "now")
	vrtCmdAssumeClock(h, now)
	img, _ := vrtCmdInvImage(h, "s", now)
	sp := vrt.TempFile("srv/item1/a.wsp", img)
	base := filepath.Dir(filepath.Dir(sp))
	u := vrtServe(base)
	aid := vrtArchiveChoice(na)
	vrt.Reach("pre")
	lh, lpl, lerr := readWhisperFileRaw(base, "item1/a.wsp", aid)
	rh, rpl, rerr := readWhisperFileRaw(u, "item1/a.wsp", aid)
	vrt.Assert(lerr == nil, "C12.raw local read succeeds")
	vrt.Assert(rerr == nil, "C12.raw remote read succeeds")
	vrt.Assert(rh.ArchiveInfoList().Equal(lh.ArchiveInfoList()), "C12.raw same layout")
	vrt.Assert(len(rpl) == len(lpl), "C12.raw same number of lists")
	for i := range lpl {
		if i < len(rpl) {
			vrt.Assert(len(rpl[i]) == len(lpl[i]), "C12.raw same number of slots")
			for k := range lpl[i] {
				if k < len(rpl[i]) {
					vrt.Assert(rpl[i][k].Time == lpl[i][k].Time, "C12.raw same stored time")
					vrt.Assert(vrt.SameBits(float64(rpl[i][k].Value), float64(lpl[i][k].Value)), "C12.raw same stored value")
				}
			}
		}
	}
}

// VerifC12_Sum: sum through the URL equals the local sum.
func VerifC12_Sum() {
	h := vrtCmdHeader([]string{"1s:2s"}, wt.Sum, 0.5)
	now := vrtCmdInstant(h, "now")
	vrtCmdAssumeClock(h, now)
	imgA, _ := vrtCmdInvImage(h, "a", now)
	imgB, _ := vrtCmdInvImage(h, "b", now)
	sp := vrt.TempFile("srv/item1/a.wsp", imgA)
	vrt.TempFile("srv/item1/b.wsp", imgB)
	base := filepath.Dir(filepath.Dir(sp))
	u := vrtServe(base)
	from := vrtCmdInstant(h, "from")
	until := vrtCmdInstant(h, "until") // before, at or after the clock
	vrt.Assume(from <= until)
	vrt.Assume(from <= now)
	vrt.Reach("pre")
	_, lts, lerr := sumWhisperFile(base, "item1", "*.wsp", ArchiveIDAll, from, until, now)
	vrt.Assert(lerr == nil, "C12.sum local sum succeeds")
	absent := false
	for _, ts := range lts {
		if ts == nil {
			absent = true
		}
	}
	// known finding: for a window outside an archive's retention every file's series is absent
	// and the local sum is an empty series with step 0, which the client-side decoder rejects
	degenerate := false
	for _, ts := range lts {
		if ts != nil && ts.Step() == 0 {
			degenerate = true
		}
	}
	vrt.Known("C12-remote-nil-series", absent)
	vrt.Known("C12-sum-absent-window", degenerate)
	_, rts, rerr := sumWhisperFile(u, "item1", "*.wsp", ArchiveIDAll, from, until, now)
	vrt.KnownOff("C12-remote-nil-series")
	if absent {
		return
	}
	vrt.Assert(rerr == nil, "C12.sum remote sum succeeds")
	vrt.KnownOff("C12-sum-absent-window")
	if degenerate {
		return
	}
	vrt.Reach("compared")
	vrt.Assert(len(rts) == len(lts), "C12.sum same number of series")
	for i := range lts {
		if i < len(rts) {
			vrtSameSeries(lts[i], rts[i], "C12.sum")
		}
	}
}

// VerifC12_NotExist: a file or pattern that does not exist is reported as not existing in both
// modes, so commands classify it identically.
func VerifC12_NotExist() {
	h := vrtCmdHeader([]string{"1s:2s"}, wt.Sum, 0.5)
	now := vrtCmdInstant(h, "now")
	vrtCmdAssumeClock(h, now)
	img, _ := vrtCmdInvImage(h, "s", now)
	sp := vrt.TempFile("srv/item1/a.wsp", img)
	base := filepath.Dir(filepath.Dir(sp))
	u := vrtServe(base)
	vrt.Reach("pre")
	switch vrt.Choose("mode", 3) {
	case 0:
		_, _, lerr := readWhisperFile(base, "item1/missing.wsp", ArchiveIDAll, 0, now, now)
		_, _, rerr := readWhisperFile(u, "item1/missing.wsp", ArchiveIDAll, 0, now, now)
		vrt.Assert(os.IsNotExist(lerr), "C12.notexist local view reports a missing file as not existing")
		vrt.Assert(os.IsNotExist(rerr), "C12.notexist remote view reports a missing file as not existing")
	case 1:
		_, _, lerr := sumWhisperFile(base, "item1", "*.nomatch", ArchiveIDAll, 0, now, now)
		_, _, rerr := sumWhisperFile(u, "item1", "*.nomatch", ArchiveIDAll, 0, now, now)
		vrt.Assert(os.IsNotExist(lerr), "C12.notexist local sum reports an empty match as not existing")
		vrt.Assert(os.IsNotExist(rerr), "C12.notexist remote sum reports an empty match as not existing")
	case 2:
		_, _, lerr := readWhisperFileRaw(base, "item1/missing.wsp", ArchiveIDAll)
		vrt.Known("C12-viewraw-notexist", true)
		_, _, rerr := readWhisperFileRaw(u, "item1/missing.wsp", ArchiveIDAll)
		vrt.Assert(os.IsNotExist(lerr), "C12.notexist local view-raw reports a missing file as not existing")
		vrt.Assert(os.IsNotExist(rerr), "C12.notexist remote view-raw reports a missing file as not existing")
		vrt.KnownOff("C12-viewraw-notexist")
	}
}

func vrtSameStrings(a, b []string, what string) {
	vrt.Assert(len(a) == len(b), what+": same number of entries")
	for i := range a {
		if i < len(b) {
			vrt.Assert(a[i] == b[i], what+": same entry")
		}
	}
}

// VerifC12_Glob: file and item globbing through the URL lists what the directory lists, in the
// same order; a pattern matching nothing is reported as not existing in both modes.
func VerifC12_Glob() {
	h := vrtCmdHeader([]string{"1s:2s"}, wt.Sum, 0.5)
	img := vrtConcreteImage(h)
	sp := vrt.TempFile("srv/item1/a.wsp", img)
	vrt.TempFile("srv/item1/b+c.wsp", img)
	vrt.TempFile("srv/item2/a.wsp", img)
	vrt.TempFile("srv/sub/item3/z.wsp", img)
	base := filepath.Dir(filepath.Dir(sp))
	u := vrtServe(base)
	vrt.Reach("pre")
	itemPats := []string{"item*", "item1", "sub/*", "*/item3", "nomatch*"}
	filePats := []string{"item1/*.wsp", "item*/a.wsp", "item1/b+c.wsp", "*/*/z.wsp", "item1/*.nomatch"}
	k := vrt.Choose("pattern", len(itemPats))
	if vrt.Choose("kind", 2) == 0 {
		li, lerr := globItems(base, itemPats[k])
		ri, rerr := globItems(u, itemPats[k])
		vrt.Assert((lerr == nil) == (rerr == nil), "C12.glob items: remote fails exactly when local does")
		if lerr != nil {
			vrt.Reach("items-missing")
			vrt.Assert(os.IsNotExist(lerr), "C12.glob items: local reports an empty match as not existing")
			vrt.Assert(os.IsNotExist(rerr), "C12.glob items: remote reports an empty match as not existing")
			return
		}
		vrt.Reach("items-listed")
		vrtSameStrings(li, ri, "C12.glob items")
	} else {
		lf, lerr := globFiles(base, filePats[k])
		rf, rerr := globFiles(u, filePats[k])
		vrt.Assert((lerr == nil) == (rerr == nil), "C12.glob files: remote fails exactly when local does")
		if lerr != nil {
			vrt.Reach("files-missing")
			vrt.Assert(os.IsNotExist(lerr), "C12.glob files: local reports an empty match as not existing")
			vrt.Assert(os.IsNotExist(rerr), "C12.glob files: remote reports an empty match as not existing")
			return
		}
		vrt.Reach("files-listed")
		vrtSameStrings(lf, rf, "C12.glob files")
	}
}
