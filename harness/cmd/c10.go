package cmd

import (
	"os"
	"path/filepath"

	wt "github.com/hnakamur/whispertool"
)

// C10 — sum is the slot-wise NaN-skipping sum of the matched files.

func refSumValues(cols [][]wt.Value, k int) wt.Value {
	// glob order, NaN entries skipped; NaN only if none has a value
	acc := cols[0][k]
	for f := 1; f < len(cols); f++ {
		v := cols[f][k]
		if acc.IsNaN() {
			acc = v
		} else if !v.IsNaN() {
			acc = acc + v
		}
	}
	return acc
}

func VerifC10_Sum() {
	h := vrtCmdHeader(vrtCmdLayouts(), wt.Sum, 0.5)
	na := len(h.ArchiveInfoList())
	now := vrtCmdInstant(h, "now")
	vrtCmdAssumeClock(h, now)
	vrt.SetClock(uint32(now))
	maxF := 2
	nf := 1 + vrt.Choose("files", maxF)
	aid := vrtArchiveChoice(na)
	names := []string{"a.wsp", "b.wsp", "c.wsp"}
	var paths []string
	for f := 0; f < nf; f++ {
		var img []byte
		if f == 0 {
			img, _ = vrtCmdInvImage(h, vrt.N("f", f), now)
		} else {
			img = vrtCmdSecondImage(h, vrt.N("f", f), now, aid == ArchiveIDAll && na > 1)
		}
		paths = append(paths, vrt.TempFile("base/item1/"+names[f], img))
	}
	base := filepath.Dir(filepath.Dir(paths[0]))
	from := vrtCmdInstant(h, "from")
	vrt.Assume(from <= now)
	vrt.Reach("pre")
	hh, tsList, err := sumWhisperFileLocal(base, "item1", "*.wsp", aid, from, now, now)
	vrt.Assert(err == nil, "C10 sum of files with identical layouts succeeds")
	vrt.Assert(hh.ArchiveInfoList().Equal(h.ArchiveInfoList()), "C10 result carries the common layout")
	vrt.Assert(len(tsList) == na, "C10 one series per archive")
	for i := 0; i < na; i++ {
		if aid != ArchiveIDAll {
			if aid != i {
				continue
			}
		}
		var cols [][]wt.Value
		var first *wt.TimeSeries
		for f := 0; f < nf; f++ {
			db, e := wt.Open(paths[f])
			vrt.Assume(e == nil)
			ts, e2 := db.FetchFromArchive(i, from, now, now)
			vrt.Assume(e2 == nil)
			_ = db.Close()
			if f == 0 {
				first = ts
			}
			cols = append(cols, ts.Values())
		}
		got := tsList[i]
		if first == nil {
			vrt.Assert(got == nil || len(got.Values()) == 0, "C10 no series where the window misses the archive")
			continue
		}
		vrt.Reach("series")
		vrt.Assert(got.FromTime() == first.FromTime(), "C10 common window start")
		vrt.Assert(got.UntilTime() == first.UntilTime(), "C10 common window end")
		vrt.Assert(got.Step() == first.Step(), "C10 common step")
		vrt.Assert(len(got.Values()) == len(cols[0]), "C10 one value per slot")
		for k := range cols[0] {
			want := refSumValues(cols, k)
			g := got.Values()[k]
			if nf == 1 {
				vrt.Assert(vrt.SameBits(float64(g), float64(want)), "C10 a single file sums to itself")
			} else {
				vrt.Assert(vrtSameValue(g, want), "C10 slot-wise NaN-skipping sum in match order")
			}
		}
	}
}

// VerifC10_Reject: differing layouts are rejected; a pattern matching nothing is reported as
// not existing.
func VerifC10_Reject() {
	h := vrtCmdHeader([]string{"1s:2s"}, wt.Sum, 0.5)
	h2, _ := wt.NewHeader(wt.Sum, 0.5, mustList("1s:3s"))
	now := vrtCmdInstant(h, "now")
	vrtCmdAssumeClock(h2, now)
	vrt.SetClock(uint32(now))
	img, _ := vrtCmdInvImage(h, "a", now)
	img2, _ := vrtCmdInvImage(h2, "b", now)
	mode := vrt.Choose("mode", 3)
	vrt.Reach("pre")
	switch mode {
	case 0:
		p := vrt.TempFile("base/item1/a.wsp", img)
		vrt.TempFile("base/item1/b.wsp", img2)
		base := filepath.Dir(filepath.Dir(p))
		// any window, including one that lies inside both files' retentions
		from := vrtCmdInstant(h, "from")
		vrt.Assume(from <= now)
		_, _, err := sumWhisperFileLocal(base, "item1", "*.wsp", ArchiveIDAll, from, now, now)
		vrt.Assert(err != nil, "C10 files with differing layouts are rejected")
	case 1:
		p := vrt.TempFile("base/item1/a.wsp", img)
		base := filepath.Dir(filepath.Dir(p))
		_, _, err := sumWhisperFileLocal(base, "item1", "*.nomatch", ArchiveIDAll, 0, now, now)
		vrt.Assert(err != nil, "C10 a file pattern matching nothing is an error")
		vrt.Assert(os.IsNotExist(err), "C10 a file pattern matching nothing is reported as not existing")
	case 2:
		p := vrt.TempFile("base/item1/a.wsp", img)
		base := filepath.Dir(filepath.Dir(p))
		_, err := globItemsLocal(base, "nomatch*")
		vrt.Assert(err != nil, "C10 an item pattern matching nothing is an error")
		vrt.Assert(os.IsNotExist(err), "C10 an item pattern matching nothing is reported as not existing")
		vrt.Assert(itemToRelDir(relDirToItem("a/b/c")) == "a/b/c", "C10 item <-> directory mapping round-trips")
	}
}
