package cmd

import (
	"path/filepath"

	wt "github.com/hnakamur/whispertool"
)

// C08 — copy makes the destination equal to the source over the requested window.

func vrtBytesEqual(a, b []byte, label string) {
	vrt.Assert(len(a) == len(b), label+" (length)")
	for i := range a {
		if i < len(b) {
			vrt.Assert(a[i] == b[i], label)
		}
	}
}

// VerifC08_Copy: arbitrary source and destination images of the same layout (or destination
// absent), arbitrary clock, window start and archive selection, both NaN modes.
func VerifC08_Copy() {
	h := vrtCmdHeader(vrtCmdLayouts(), wt.Sum, 0.5)
	na := len(h.ArchiveInfoList())
	now := vrtCmdInstant(h, "now")
	vrtCmdAssumeClock(h, now)
	vrt.SetClock(uint32(now))
	aid := vrtArchiveChoice(na)
	simg, _ := vrtCmdInvImage(h, "s", now)
	sp := vrt.TempFile("src/a.wsp", simg)
	destAbsent := vrt.Choose("destAbsent", 2) == 1
	var dp string
	if destAbsent {
		dp = vrt.NoFile("dst/a.wsp")
	} else {
		dimg := vrtCmdSecondImage(h, "d", now, aid == ArchiveIDAll && na > 1)
		dp = vrt.TempFile("dst/a.wsp", dimg)
	}
	var from wt.Timestamp // all archives of a multi-archive file in the quick tier: the default window
	if !(aid == ArchiveIDAll && na > 1 && vrt.Tier() == 0) {
		from = vrtCmdInstant(h, "from")
		vrt.Assume(from <= now)
	}
	copyNaN := vrt.Choose("copyNaN", 2) == 1
	c := &CopyCommand{SrcBase: filepath.Dir(sp), DestBase: filepath.Dir(dp), SrcRelPath: "a.wsp", ArchiveID: aid, From: from,
		CopyNaN: copyNaN, AggregationMethod: wt.Sum, XFilesFactor: 0.5, ArchiveInfoList: h.ArchiveInfoList()}
	vrt.Reach("pre")
	err := c.copyOneFile("a.wsp", "a.wsp", vrt.Writer())
	vrt.Assert(err == nil, "C08 copy between equal layouts succeeds")
	// the source is never modified
	vrtBytesEqual(vrt.ReadFile(sp), simg, "C08 source file is never modified")
	// a missing destination exists afterwards with the requested layout, even with nothing to copy
	vrt.Assert(vrt.FileExists(dp), "C08 destination exists after copy")
	sdb, e1 := wt.Open(sp)
	vrt.Assume(e1 == nil)
	ddb, e2 := wt.Open(dp)
	vrt.Assert(e2 == nil, "C08 destination is a valid whisper file after copy")
	vrt.Assert(ddb.Header().ArchiveInfoList().Equal(h.ArchiveInfoList()), "C08 destination has the requested layout")
	vrt.Reach("copied")
	for i := 0; i < na; i++ {
		if aid != ArchiveIDAll {
			if aid != i {
				continue
			}
		}
		sts, e3 := sdb.FetchFromArchive(i, from, now, now)
		dts, e4 := ddb.FetchFromArchive(i, from, now, now)
		vrt.Assume(e3 == nil)
		vrt.Assert(e4 == nil, "C08 destination fetch succeeds")
		if sts == nil {
			continue
		}
		sv, dv := sts.Values(), dts.Values()
		vrt.Assert(len(sv) == len(dv), "C08 same window shape")
		for k := range sv {
			if k < len(dv) {
				if !sv[k].IsNaN() {
					vrt.Assert(vrtSameValue(dv[k], sv[k]), "C08 destination holds the source's value wherever the source has one")
				} else if copyNaN {
					vrt.Assert(dv[k].IsNaN(), "C08 NaN copied where the source has none (copy-nan)")
				}
			}
		}
	}
}

// VerifC08_Mismatch: a layout mismatch is reported without writing anything.
func VerifC08_Mismatch() {
	h := vrtCmdHeader([]string{"1s:2s"}, wt.Sum, 0.5)
	h2, _ := wt.NewHeader(wt.Sum, 0.5, mustList("1s:3s"))
	now := vrtCmdInstant(h, "now")
	vrtCmdAssumeClock(h2, now)
	vrt.SetClock(uint32(now))
	simg, _ := vrtCmdInvImage(h, "s", now)
	dimg, _ := vrtCmdInvImage(h2, "d", now)
	sp := vrt.TempFile("src/a.wsp", simg)
	dp := vrt.TempFile("dst/a.wsp", dimg)
	// any window, including one that lies inside both files' retentions
	from := vrtCmdInstant(h, "from")
	vrt.Assume(from <= now)
	c := &CopyCommand{SrcBase: filepath.Dir(sp), DestBase: filepath.Dir(dp), SrcRelPath: "a.wsp", ArchiveID: ArchiveIDAll, From: from,
		AggregationMethod: wt.Sum, XFilesFactor: 0.5, ArchiveInfoList: h.ArchiveInfoList()}
	vrt.Reach("pre")
	err := c.copyOneFile("a.wsp", "a.wsp", vrt.Writer())
	vrt.Assert(err != nil, "C08 layout mismatch is reported")
	vrtBytesEqual(vrt.ReadFile(dp), dimg, "C08 layout mismatch writes nothing")
	vrtBytesEqual(vrt.ReadFile(sp), simg, "C08 source untouched on mismatch")
}

// VerifC08_Glob: with a glob pattern every matched source file is copied to the same relative
// path under the destination base (missing destinations are created).
func VerifC08_Glob() {
	h := vrtCmdHeader([]string{"1s:2s"}, wt.Sum, 0.5)
	now := vrtCmdInstant(h, "now")
	vrtCmdAssumeClock(h, now)
	vrt.SetClock(uint32(now))
	imgA, _ := vrtCmdInvImage(h, "a", now)
	imgB, _ := vrtCmdInvImage(h, "b", now)
	pa := vrt.TempFile("src/x/a.wsp", imgA)
	pb := vrt.TempFile("src/x/b.wsp", imgB)
	sbase := filepath.Dir(filepath.Dir(pa))
	da := vrt.NoFile("dst/x/a.wsp")
	db := vrt.NoFile("dst/x/b.wsp")
	dbase := filepath.Dir(filepath.Dir(da))
	c := &CopyCommand{SrcBase: sbase, DestBase: dbase, SrcRelPath: "x/*.wsp", ArchiveID: ArchiveIDAll,
		AggregationMethod: wt.Sum, XFilesFactor: 0.5, ArchiveInfoList: h.ArchiveInfoList()}
	vrt.Reach("pre")
	err := c.execute(vrt.Writer())
	vrt.Assert(err == nil, "C08.glob copy of every matched file succeeds")
	for i, sp := range []string{pa, pb} {
		dp := []string{da, db}[i]
		vrt.Assert(vrt.FileExists(dp), "C08.glob every matched file exists under the destination base at the same relative path")
		sdb, e1 := wt.Open(sp)
		vrt.Assume(e1 == nil)
		ddb, e2 := wt.Open(dp)
		vrt.Assert(e2 == nil, "C08.glob destination is a valid whisper file")
		sts, _ := sdb.FetchFromArchive(0, 0, now, now)
		dts, e3 := ddb.FetchFromArchive(0, 0, now, now)
		vrt.Assert(e3 == nil, "C08.glob destination fetch succeeds")
		for k, v := range sts.Values() {
			if !v.IsNaN() {
				vrt.Assert(vrtSameValue(dts.Values()[k], v), "C08.glob each destination holds its own source's values")
			}
		}
		_ = sdb.Close()
		_ = ddb.Close()
	}
}
