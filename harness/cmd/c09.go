package cmd

import (
	"errors"
	"path/filepath"

	wt "github.com/hnakamur/whispertool"
)

// C09 — diff reports exactly the slots that differ.

// vrtArchiveChoice: -1 = all archives, or one archive id.  In the quick tier multi-archive
// layouts are exercised with single-archive selections only (the all-archives product of
// slot comparisons is left to the thorough tier).
func vrtArchiveChoice(na int) int {
	return -1 + vrt.Choose("archive", na+1)
}

// VerifC09_Diff: two files of equal layout: ErrDiffFound exactly when some selected archive
// has, within the window, a slot whose two values differ (two NaNs are equal); nil otherwise.
func VerifC09_Diff() {
	h := vrtCmdHeader(vrtCmdLayouts(), wt.Sum, 0.5)
	na := len(h.ArchiveInfoList())
	now := vrtCmdInstant(h, "now")
	vrtCmdAssumeClock(h, now)
	vrt.SetClock(uint32(now))
	aid := vrtArchiveChoice(na)
	simg, _ := vrtCmdInvImage(h, "s", now)
	dimg := vrtCmdSecondImage(h, "d", now, aid == ArchiveIDAll && na > 1)
	sp := vrt.TempFile("src/a.wsp", simg)
	dp := vrt.TempFile("dst/a.wsp", dimg)
	from := vrtCmdInstant(h, "from")
	vrt.Assume(from <= now)
	c := &DiffCommand{SrcBase: filepath.Dir(sp), DestBase: filepath.Dir(dp), SrcRelPath: "a.wsp", ArchiveID: aid, From: from}
	vrt.Reach("pre")
	err := c.diffOneFile("a.wsp", "a.wsp", vrt.Writer())
	nrec := vrt.LogLen()

	// oracle: the library's own fetches of both files at the same clock and window
	sdb, e1 := wt.Open(sp)
	ddb, e2 := wt.Open(dp)
	vrt.Assume(e1 == nil)
	vrt.Assume(e2 == nil)
	ndiff := 0
	for i := 0; i < na; i++ {
		if aid != ArchiveIDAll {
			if aid != i {
				continue
			}
		}
		sts, e3 := sdb.FetchFromArchive(i, from, now, now)
		dts, e4 := ddb.FetchFromArchive(i, from, now, now)
		vrt.Assume(e3 == nil)
		vrt.Assume(e4 == nil)
		if sts == nil {
			continue
		}
		sv, dv := sts.Values(), dts.Values()
		for k := range sv {
			if !vrtSameValue(sv[k], dv[k]) {
				ndiff++
			}
		}
	}
	if ndiff > 0 {
		vrt.Reach("differs")
		vrt.Assert(errors.Is(err, ErrDiffFound), "C09 difference found is signalled when a slot differs")
		vrt.Assert(nrec == 1+ndiff, "C09 exactly the differing slots are listed")
	} else {
		vrt.Reach("clean")
		vrt.Assert(err == nil, "C09 identical windows are clean")
		vrt.Assert(nrec == 1, "C09 nothing listed when nothing differs")
	}
}

// VerifC09_Missing: a file missing on either side is a reported difference, not a failure;
// unequal layouts are an error that is not 'difference found'.
func VerifC09_Missing() {
	h := vrtCmdHeader([]string{"1s:2s"}, wt.Sum, 0.5)
	h2, _ := wt.NewHeader(wt.Sum, 0.5, mustList("1s:3s"))
	now := vrtCmdInstant(h, "now")
	vrtCmdAssumeClock(h2, now)
	vrt.SetClock(uint32(now))
	img, _ := vrtCmdInvImage(h, "s", now)
	img2, _ := vrtCmdInvImage(h2, "d", now)
	mode := vrt.Choose("mode", 3)
	var sp, dp string
	switch mode {
	case 0:
		sp = vrt.NoFile("src/a.wsp")
		dp = vrt.TempFile("dst/a.wsp", img)
	case 1:
		sp = vrt.TempFile("src/a.wsp", img)
		dp = vrt.NoFile("dst/a.wsp")
	case 2:
		sp = vrt.TempFile("src/a.wsp", img)
		dp = vrt.TempFile("dst/a.wsp", img2)
	}
	c := &DiffCommand{SrcBase: filepath.Dir(sp), DestBase: filepath.Dir(dp), SrcRelPath: "a.wsp", ArchiveID: ArchiveIDAll}
	vrt.Reach("pre")
	err := c.diffOneFile("a.wsp", "a.wsp", vrt.Writer())
	if mode < 2 {
		vrt.Assert(errors.Is(err, ErrDiffFound), "C09 a missing file counts as a reported difference")
	} else {
		vrt.Assert(err != nil, "C09 unequal layouts are an error")
		vrt.Assert(!errors.Is(err, ErrDiffFound), "C09 unequal layouts are not 'difference found'")
	}
}

func mustList(s string) wt.ArchiveInfoList {
	l, err := wt.ParseArchiveInfoList(s)
	if err != nil {
		panic(err)
	}
	return l
}

// VerifC09_Multi: with a glob every matched file is compared and one differing file makes the
// whole run report a difference, whatever its position in the match order.
func VerifC09_Multi() {
	h := vrtCmdHeader([]string{"1s:2s"}, wt.Sum, 0.5)
	now := vrtCmdInstant(h, "now")
	vrtCmdAssumeClock(h, now)
	vrt.SetClock(uint32(now))
	same := append(h.AppendTo(nil), make([]byte, 12*2)...) // a never-written file
	simg, _ := vrtCmdInvImage(h, "s", now)
	dimg, _ := vrtCmdInvImage(h, "d", now)
	// which of the three matched files carries the (possibly) differing pair
	pos := vrt.Choose("pos", 3)
	names := []string{"a.wsp", "b.wsp", "c.wsp"}
	var sbase, dbase string
	for i, nm := range names {
		if i == pos {
			sbase = filepath.Dir(vrt.TempFile("src/"+nm, simg))
			dbase = filepath.Dir(vrt.TempFile("dst/"+nm, dimg))
		} else {
			vrt.TempFile("src/"+nm, same)
			vrt.TempFile("dst/"+nm, same)
		}
	}
	c := &DiffCommand{SrcBase: sbase, DestBase: dbase, SrcRelPath: "*.wsp", ArchiveID: ArchiveIDAll}
	vrt.Reach("pre")
	err := c.execute(vrt.Writer())
	sdb, e1 := wt.Open(filepath.Join(sbase, names[pos]))
	ddb, e2 := wt.Open(filepath.Join(dbase, names[pos]))
	vrt.Assume(e1 == nil)
	vrt.Assume(e2 == nil)
	sts, _ := sdb.FetchFromArchive(0, 0, now, now)
	dts, _ := ddb.FetchFromArchive(0, 0, now, now)
	differ := false
	for k, v := range sts.Values() {
		if !vrtSameValue(v, dts.Values()[k]) {
			differ = true
		}
	}
	if differ {
		vrt.Assert(errors.Is(err, ErrDiffFound), "C09.multi one differing file makes the whole run report a difference")
	} else {
		vrt.Assert(err == nil, "C09.multi all files equal: clean")
	}
}
