package cmd

import (
	"path/filepath"

	wt "github.com/hnakamur/whispertool"
)

// C05 (command-line part) — a CLI write that fails before its final Sync leaves the contents
// of an existing destination untouched.  The failure injected is the text output: a writer whose
// k-th write fails (k = 0..3), so the command fails after it has already applied the points to
// the in-memory handle (copy/sum-copy print the written points between the update and Sync).

// VerifC05_CliCopy: copy onto an existing destination with a failing text output.
func VerifC05_CliCopy() {
	h := vrtCmdHeader([]string{"1s:2s"}, wt.Sum, 0.5)
	now := vrtCmdInstant(h, "now")
	vrtCmdAssumeClock(h, now)
	vrt.SetClock(uint32(now))
	simg, _ := vrtCmdInvImage(h, "s", now)
	dimg, _ := vrtCmdInvImage(h, "d", now)
	sp := vrt.TempFile("src/a.wsp", simg)
	dp := vrt.TempFile("dst/a.wsp", dimg)
	copyNaN := vrt.Choose("copyNaN", 2) == 1
	okWrites := vrt.Choose("okWrites", 4)
	c := &CopyCommand{SrcBase: filepath.Dir(sp), DestBase: filepath.Dir(dp), SrcRelPath: "a.wsp", ArchiveID: ArchiveIDAll,
		CopyNaN: copyNaN, AggregationMethod: wt.Sum, XFilesFactor: 0.5, ArchiveInfoList: h.ArchiveInfoList()}
	vrt.Reach("pre")
	err := c.execute(vrt.FailWriter(okWrites))
	if err != nil {
		vrt.Reach("failed")
		vrtBytesEqual(vrt.ReadFile(dp), dimg, "C05.cli a failed copy leaves the existing destination untouched")
	} else {
		vrt.Reach("succeeded")
	}
	vrtBytesEqual(vrt.ReadFile(sp), simg, "C05.cli source file is never modified")
}

// VerifC05_CliSumCopy: sum-copy onto an existing destination with a failing text output.
func VerifC05_CliSumCopy() {
	h := vrtCmdHeader([]string{"1s:2s"}, wt.Sum, 0.5)
	now := vrtCmdInstant(h, "now")
	vrtCmdAssumeClock(h, now)
	vrt.SetClock(uint32(now))
	simg, _ := vrtCmdInvImage(h, "s", now)
	dimg, _ := vrtCmdInvImage(h, "d", now)
	sp := vrt.TempFile("base/item1/a.wsp", simg)
	dp := vrt.TempFile("dst/item1/sum.wsp", dimg)
	base := filepath.Dir(filepath.Dir(sp))
	dbase := filepath.Dir(filepath.Dir(dp))
	okWrites := vrt.Choose("okWrites", 5)
	c := &SumCopyCommand{SrcBase: base, ItemPattern: "item1", SrcPattern: "*.wsp", DestBase: dbase, DestRelPath: "sum.wsp", ArchiveID: ArchiveIDAll,
		AggregationMethod: wt.Sum, XFilesFactor: 0.5, ArchiveInfoList: h.ArchiveInfoList()}
	vrt.Reach("pre")
	err := c.execute(vrt.FailWriter(okWrites))
	if err != nil {
		vrt.Reach("failed")
		vrtBytesEqual(vrt.ReadFile(dp), dimg, "C05.cli a failed sum-copy leaves the existing destination untouched")
	} else {
		vrt.Reach("succeeded")
	}
}
