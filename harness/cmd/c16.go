package cmd

import (
	"errors"
	"path/filepath"

	wt "github.com/hnakamur/whispertool"
)

// C16 — commands fail loudly: no panic (implicit obligation at every dereference/index) and
// no silent success.

// vrtC16Tree: src base with item1/a.wsp (2-level layout, one written point each), a
// destination base with item1/a.wsp and item1/sum.wsp.
func vrtC16Tree(now wt.Timestamp, h *wt.Header, withDest bool) (string, string) {
	return vrtC16TreeX(now, h, withDest, true)
}

// vrtConcreteImage: a never-written file (header followed by zero slots).
func vrtConcreteImage(h *wt.Header) []byte {
	return append(h.AppendTo(nil), make([]byte, int(h.ExpectedFileSize()-h.Size()))...)
}

func vrtC16TreeX(now wt.Timestamp, h *wt.Header, withDest bool, symbolic bool) (string, string) {
	if !symbolic {
		img := vrtConcreteImage(h)
		sp := vrt.TempFile("src/item1/a.wsp", img)
		dp := vrt.TempFile("dst/item1/a.wsp", img)
		vrt.TempFile("dst/item1/sum.wsp", img)
		return filepath.Dir(filepath.Dir(sp)), filepath.Dir(filepath.Dir(dp))
	}
	img, _ := vrtCmdInvImage(h, "s", now)
	sp := vrt.TempFile("src/item1/a.wsp", img)
	sbase := filepath.Dir(filepath.Dir(sp))
	var dbase string
	if withDest {
		dimg, _ := vrtCmdInvImage(h, "d", now)
		dp := vrt.TempFile("dst/item1/a.wsp", dimg)
		vrt.TempFile("dst/item1/sum.wsp", dimg)
		dbase = filepath.Dir(filepath.Dir(dp))
	} else {
		dbase = filepath.Dir(filepath.Dir(vrt.NoFile("dst/item1/a.wsp")))
	}
	return sbase, dbase
}

func vrtC16Run(cmdID int, sbase, dbase string, h *wt.Header, aid int, from wt.Timestamp, textOut string) error {
	switch cmdID {
	case 0:
		return (&ViewCommand{SrcBase: sbase, SrcRelPath: "item1/a.wsp", ArchiveID: aid, From: from, ShowHeader: true, TextOut: textOut}).Execute()
	case 1:
		return (&ViewRawCommand{SrcBase: sbase, SrcRelPath: "item1/a.wsp", ArchiveID: aid, From: from, ShowHeader: true, SortsByTime: true, TextOut: textOut}).Execute()
	case 2:
		return (&DiffCommand{SrcBase: sbase, DestBase: dbase, SrcRelPath: "item1/a.wsp", ArchiveID: aid, From: from, TextOut: textOut}).Execute()
	case 3:
		return (&CopyCommand{SrcBase: sbase, DestBase: dbase, SrcRelPath: "item1/a.wsp", ArchiveID: aid, From: from, TextOut: textOut,
			AggregationMethod: wt.Sum, XFilesFactor: 0.5, ArchiveInfoList: h.ArchiveInfoList()}).Execute()
	case 4:
		return (&SumCommand{SrcBase: sbase, ItemPattern: "item1", SrcPattern: "*.wsp", ArchiveID: aid, From: from, TextOut: textOut}).Execute()
	case 5:
		return (&SumCopyCommand{SrcBase: sbase, DestBase: dbase, ItemPattern: "item1", SrcPattern: "*.wsp", DestRelPath: "sum.wsp", ArchiveID: aid, From: from, TextOut: textOut,
			AggregationMethod: wt.Sum, XFilesFactor: 0.5, ArchiveInfoList: h.ArchiveInfoList()}).Execute()
	case 6:
		return (&SumDiffCommand{SrcBase: sbase, DestBase: dbase, ItemPattern: "item1", SrcPattern: "*.wsp", DestRelPath: "sum.wsp", ArchiveID: aid, From: from, TextOut: textOut}).Execute()
	}
	panic("bad command id")
}

// VerifC16_Selection: every command x archive selection (all / each id / out of range) x window
// (default / symbolic start, possibly beyond the finer archive's retention): never a panic; an
// out-of-range archive id is an error.
func VerifC16_Selection() {
	h := vrtCmdHeader([]string{"1s:2s,2s:4s"}, wt.Sum, 0.5)
	now := vrtCmdInstant(h, "now")
	vrtCmdAssumeClock(h, now)
	vrt.SetClock(uint32(now))
	// content does not matter for this obligation (absent series come from the selection and the
	// window, not from what is stored): never-written files
	sbase, dbase := vrtC16TreeX(now, h, true, false)
	cmdID := vrt.Choose("cmd", 7)
	aid := -1 + vrt.Choose("archive", 4) // -1, 0, 1, 2 (out of range)
	var from wt.Timestamp
	if vrt.Choose("window", 2) == 1 {
		from = vrtCmdInstant(h, "from")
		vrt.Assume(from <= now)
	}
	vrt.Reach("pre")
	err := vrtC16Run(cmdID, sbase, dbase, h, aid, from, "")
	if aid == 2 {
		vrt.Assert(err != nil, "C16 an out-of-range archive id is reported as an error")
	} else if cmdID == 2 || cmdID == 6 {
		vrt.Assert(err == nil || errors.Is(err, ErrDiffFound), "C16 diff commands end in clean or difference-found")
	} else {
		vrt.Assert(err == nil, "C16 a valid invocation performs its effect and reports success")
	}
}

// VerifC16_TextOut: when the text output cannot be opened the command reports an error (it
// must not report success without having done its work).
func VerifC16_TextOut() {
	h := vrtCmdHeader([]string{"1s:2s,2s:4s"}, wt.Sum, 0.5)
	now := vrtCmdInstant(h, "now")
	vrtCmdAssumeClock(h, now)
	vrt.SetClock(uint32(now))
	sbase, dbase := vrtC16TreeX(now, h, true, false)
	cmdID := vrt.Choose("cmd", 8)
	bad := vrt.NoDir("out.txt")
	if vrt.Choose("fault", 2) == 1 {
		// opens fine, every write fails (ENOSPC): the failure surfaces when the buffer is flushed
		bad = "/dev/full"
	}
	vrt.Reach("pre")
	var err error
	if cmdID == 7 {
		dest := vrt.NoFile("gen/new.wsp")
		err = (&GenerateCommand{Dest: dest, AggregationMethod: wt.Sum, XFilesFactor: 0.5, ArchiveInfoList: h.ArchiveInfoList(), RandMax: 10, Fill: false, TextOut: bad}).Execute()
	} else {
		err = vrtC16Run(cmdID, sbase, dbase, h, ArchiveIDAll, 0, bad)
	}
	vrt.Assert(err != nil, "C16 an unopenable or unwritable text-out path is reported as an error, not as success")
}

// VerifC16_Missing: a missing input is never reported as plain success.
func VerifC16_Missing() {
	h := vrtCmdHeader([]string{"1s:2s,2s:4s"}, wt.Sum, 0.5)
	now := vrtCmdInstant(h, "now")
	vrtCmdAssumeClock(h, now)
	vrt.SetClock(uint32(now))
	which := vrt.Choose("missing", 2) // 0: source side missing, 1: destination side missing
	var sbase, dbase string
	if which == 0 {
		sbase = filepath.Dir(filepath.Dir(vrt.NoFile("src/item1/a.wsp")))
		dimg, _ := vrtCmdInvImage(h, "d", now)
		dp := vrt.TempFile("dst/item1/a.wsp", dimg)
		vrt.TempFile("dst/item1/sum.wsp", dimg)
		dbase = filepath.Dir(filepath.Dir(dp))
	} else {
		sbase, dbase = vrtC16Tree(now, h, false)
	}
	cmdID := vrt.Choose("cmd", 7)
	vrt.Reach("pre")
	err := vrtC16Run(cmdID, sbase, dbase, h, ArchiveIDAll, 0, "")
	if which == 0 {
		vrt.Assert(err != nil, "C16 a missing source is never reported as success")
	} else {
		// destination missing: readers do not care; copy/sum-copy create it; diff commands report it
		if cmdID == 2 || cmdID == 6 {
			vrt.Assert(err != nil, "C16 a missing destination is reported by the diff commands")
		} else {
			vrt.Assert(err == nil, "C16 commands that do not need the destination (or create it) succeed")
		}
	}
}

// VerifC16_Generate: generate refuses to overwrite an existing file.
func VerifC16_Generate() {
	h := vrtCmdHeader([]string{"1s:2s,2s:4s"}, wt.Sum, 0.5)
	now := vrtCmdInstant(h, "now")
	vrtCmdAssumeClock(h, now)
	vrt.SetClock(uint32(now))
	img, _ := vrtCmdInvImage(h, "d", now)
	dest := vrt.TempFile("gen/old.wsp", img)
	vrt.Reach("pre")
	err := (&GenerateCommand{Dest: dest, AggregationMethod: wt.Sum, XFilesFactor: 0.5, ArchiveInfoList: h.ArchiveInfoList(), RandMax: 10, Fill: vrt.Choose("fill", 2) == 1}).Execute()
	vrt.Assert(err != nil, "C16 generate refuses to overwrite an existing file")
	vrtBytesEqual(vrt.ReadFile(dest), img, "C16 generate leaves the existing file untouched")
}

// VerifC16_CorruptDest: a destination that exists but is not a whisper file (or cannot be
// created) makes copy and sum-copy report an error - never a panic, never success.
func VerifC16_CorruptDest() {
	h := vrtCmdHeader([]string{"1s:2s,2s:4s"}, wt.Sum, 0.5)
	now := vrtCmdInstant(h, "now")
	vrtCmdAssumeClock(h, now)
	vrt.SetClock(uint32(now))
	img := vrtConcreteImage(h)
	sp := vrt.TempFile("src/item1/a.wsp", img)
	sbase := filepath.Dir(filepath.Dir(sp))
	junk := vrt.Bytes("junk", []int{0, 3, 16, 28}[vrt.Choose("junkLen", 4)])
	dp := vrt.TempFile("dst/item1/a.wsp", junk)
	vrt.TempFile("dst/item1/sum.wsp", junk)
	dbase := filepath.Dir(filepath.Dir(dp))
	cmdID := []int{3, 5, 2, 6}[vrt.Choose("cmd", 4)] // copy, sum-copy, diff, sum-diff
	vrt.Reach("pre")
	err := vrtC16Run(cmdID, sbase, dbase, h, ArchiveIDAll, 0, "")
	vrt.Assert(err != nil, "C16 a corrupt destination is reported as an error")
}
