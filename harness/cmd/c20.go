package cmd

import (
	wt "github.com/hnakamur/whispertool"
)

// C20 — generate produces a complete, self-consistent file with the requested layout.

func VerifC20_Generate() {
	ls := []string{"1s:2s,2s:4s", "2s:6s"}
	if vrt.Tier() == 1 {
		ls = append(ls, "1s:3s,3s:9s")
	}
	li := vrt.Choose("layout", len(ls))
	txt := ls[li]
	list := mustList(txt)
	m := wt.AggregationMethod(1 + vrt.Choose("method", 2)) // average or sum
	h, _ := wt.NewHeader(m, 0.5, list)
	na := len(list)
	now := vrtCmdInstant(h, "now")
	vrtCmdAssumeClock(h, now)
	vrt.SetClock(uint32(now))
	vrt.ClockDrift(3) // later readings of the wall clock may be up to 3 s later each
	rms := []int{0, 1, 3}
	if li >= 2 {
		rms = []int{0, 1} // larger rings: fewer draw values (every draw is case-split)
	}
	randMax := rms[vrt.Choose("randMax", len(rms))]
	fill := vrt.Choose("fill", 2) == 1
	dest := vrt.NoFile("gen/new.wsp")
	vrt.Reach("pre")
	err := (&GenerateCommand{Dest: dest, AggregationMethod: m, XFilesFactor: 0.5, ArchiveInfoList: list, RandMax: randMax, Fill: fill}).execute(vrt.Writer())
	vrt.Assert(err == nil, "C20 generate succeeds on a new path")
	db, e := wt.Open(dest)
	vrt.Assert(e == nil, "C20 the generated file is a valid whisper file (synced)")
	vrt.Assert(db.Header().ArchiveInfoList().Equal(h.ArchiveInfoList()), "C20 exactly the requested layout")
	vrt.Assert(db.Header().AggregationMethod() == m, "C20 requested aggregation method")
	vrt.Assert(db.Header().XFilesFactor() == 0.5, "C20 requested xFilesFactor")
	if !fill {
		vrt.Reach("empty")
		for i := 0; i < na; i++ {
			pts, e2 := db.GetAllRawUnsortedPoints(i)
			vrt.Assert(e2 == nil, "C20 raw dump succeeds")
			for _, p := range pts {
				vrt.Assert(p.Time == 0, "C20 without fill every slot is empty (time)")
				vrt.Assert(p.Value == 0, "C20 without fill every slot is empty (value)")
			}
		}
		return
	}
	vrt.Reach("filled")
	al := h.ArchiveInfoList()
	var series []*wt.TimeSeries
	for i := 0; i < na; i++ {
		a := al[i]
		ret := int64(a.SecondsPerPoint()) * int64(a.NumberOfPoints())
		ts, e2 := db.FetchFromArchive(i, wt.Timestamp(int64(now)-ret), now, now)
		vrt.Assert(e2 == nil, "C20 fetch succeeds")
		vrt.Assert(ts != nil, "C20 whole retention is fetchable")
		series = append(series, ts)
		max := float64(randMax) * float64(a.SecondsPerPoint()) / float64(al[0].SecondsPerPoint())
		for k, v := range ts.Values() {
			t := ts.FromTime().Add(wt.Duration(k) * ts.Step())
			if t > now {
				continue // the slot after the clock is not part of the retention up to the generation time
			}
			vrt.Assert(!v.IsNaN(), "C20 with fill every slot of the retention holds a value")
			vrt.Assert(float64(v) >= 0, "C20 values are non-negative")
			vrt.Assert(float64(v) <= max, "C20 values do not exceed the maximum scaled by the archive's step")
		}
	}
	// every coarser slot fully covered by retained finer slots equals their sum
	for i := 1; i < na; i++ {
		fine, coarse := series[i-1], series[i]
		r := int(al[i].SecondsPerPoint() / al[i-1].SecondsPerPoint())
		fv := fine.Values()
		for k, cv := range coarse.Values() {
			ct := coarse.FromTime().Add(wt.Duration(k) * coarse.Step())
			if ct > now {
				continue
			}
			// positions of the r finer slots of [ct, ct+S_coarse)
			first := (int64(ct) - int64(fine.FromTime())) / int64(fine.Step())
			if first < 0 {
				continue
			}
			if int(first)+r > len(fv) {
				continue
			}
			covered := true
			sum := wt.Value(0)
			for q := 0; q < r; q++ {
				ft := fine.FromTime().Add(wt.Duration(int(first)+q) * fine.Step())
				if ft > now {
					covered = false
				}
				sum += fv[int(first)+q]
			}
			if covered {
				vrt.Assert(cv == sum, "C20 a coarser slot fully covered by retained finer slots equals their sum")
			}
		}
	}
}

// VerifC20_Existing: generate refuses to overwrite an existing file and leaves it untouched.
func VerifC20_Existing() {
	h := vrtCmdHeader([]string{"1s:2s,2s:4s"}, wt.Sum, 0.5)
	now := vrtCmdInstant(h, "now")
	vrtCmdAssumeClock(h, now)
	vrt.SetClock(uint32(now))
	img, _ := vrtCmdInvImage(h, "d", now)
	dest := vrt.TempFile("gen/old.wsp", img)
	vrt.Reach("pre")
	err := (&GenerateCommand{Dest: dest, AggregationMethod: wt.Sum, XFilesFactor: 0.5, ArchiveInfoList: h.ArchiveInfoList(), RandMax: 3, Fill: vrt.Choose("fill", 2) == 1}).Execute()
	vrt.Assert(err != nil, "C20 generate refuses to overwrite an existing file")
	vrt.Assert(vrt.FileExists(dest), "C20 the existing file is still there")
	vrtBytesEqual(vrt.ReadFile(dest), img, "C20 the existing file is left untouched")
}
