#!/usr/bin/env python3
# Regenerates MANIFEST.json from harness/specs.json (claimed checks) and NA.json (not applicable).
import json
specs=json.load(open('/verif/harness/specs.json'))
props=[json.loads(l) for l in open('/verif/properties.jsonl')]
na=json.load(open('/verif/NA.json'))
texts=json.load(open('/verif/claims.json'))
checks=[]
for p in props:
    pid=p['id']
    if pid not in specs or pid in na: continue
    s=specs[pid]
    t=texts.get(pid,{})
    checks.append({
      "property_id":pid,
      "quick_cmd":"/verif/vcheck %s --tier quick"%pid,
      "thorough_cmd":"/verif/vcheck %s --tier thorough"%pid,
      "evidence_file":"/verif/evidence/%s.json"%pid,
      "replay_cmd_template":"/verif/bin/vengine replay %s {path}"%pid,
      "engine":"vengine",
      "level_claimed":{"category":s['level'],"text":t.get('text',s['explanation']),"design_ref":"DESIGN.md section 4, "+pid},
      "level_note":t.get('note',"; ".join(s.get('assumptions',[]))+" | bounds: "+"; ".join(s.get('bounds',[]))),
      "technique":"bounded symbolic execution of the real Go code (go/ssa -> SMT-LIB2), each assertion decided by z3 (unsat of path condition and negated assertion) on every explored path; counterexamples replayed natively"
    })
m={"version":1,
 "setup_cmd":"cd /verif/engine && GOFLAGS=-mod=mod GOPROXY=off GOSUMDB=off GOTOOLCHAIN=local go build -o /verif/bin/vengine . && /verif/bin/vengine selftest",
 "hooks":{"guard":"verif","enable":"none needed: harnesses and the vrt runtime are injected by go/packages Overlay (symbolic build) and go test -overlay (replay) as zz_verif_*.go files that never exist under /repo","baseline_off_cmd":"cd /repo && GOFLAGS=-mod=mod GOPROXY=off GOSUMDB=off go test -vet=off -count=1 -timeout 25m ./...","source_commits":[],"add_only":True},
 "engines":[{"name":"vengine","path":"/verif/engine","serves_properties":[c['property_id'] for c in checks],"kind_free_text":"SSA-based symbolic executor for Go written for this task: go/ssa loader with overlay harnesses, typed term IR with simplifier and path-sensitive intervals, integer (ITE-wrap) and bit-vector lowerings to SMT-LIB2, z3 5.1.0 driver (incremental + one-shot), environment model (files, fd table, filebuffer), native counterexample replay"}],
 "checks":checks,
 "notes":"Every check rebuilds go/ssa from /repo's working tree. Exit 0 = all obligations discharged within the stated bounds; 1 = a natively replayed violation; 2 = inconclusive (solver unknown, unsupported code, truncated exploration, or a counterexample that did not replay). known_findings.json lists genuine defects (fixed ones with their fix: commit).",
 "not_applicable":[{"property_id":k,"reason":v} for k,v in na.items()]}
json.dump(m,open('/verif/MANIFEST.json','w'),indent=1)
print(len(checks),"checks,",len(na),"not applicable")
