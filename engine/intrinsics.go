package main

// Intrinsics: the vrt harness runtime, and models of standard-library / dependency
// functions that are not executed from SSA.  Every intrinsic that fires is counted in
// PathResult.Stubs so that evidence lists exactly which stubs a verdict relied on.

import (
	"fmt"
	"go/types"
	"math/big"
	"strings"

	"golang.org/x/tools/go/ssa"
)

func isVrtMethod(fn *ssa.Function) bool {
	if fn.Signature.Recv() == nil {
		return false
	}
	t := fn.Signature.Recv().Type()
	if n, ok := t.(*types.Named); ok {
		return n.Obj().Name() == "vrtT"
	}
	return false
}

var pureIntrinsics = map[string]bool{
	"math.IsNaN": true, "math.NaN": true, "math.Float64bits": true, "math.Float64frombits": true,
	"math.Float32bits": true, "math.Float32frombits": true, "math.IsInf": true, "math.Inf": true, "math.Abs": true, "math.Max": true, "math.Min": true,
}

func isPureIntrinsic(name string) bool { return pureIntrinsics[name] }

func (m *Machine) stub(name string) {
	if m.res != nil {
		m.res.Stubs[name]++
	}
}

func (m *Machine) sideEffect(name string) {
	if m.merge != nil {
		panic(mergeAbort{"side-effecting intrinsic " + name})
	}
}

func (m *Machine) newErr(msg string, wrapped Value) IfaceV {
	return IfaceV{t: errObjType, v: &ErrObj{msg: msg, wrapped: wrapped, site: m.position()}}
}

// errObjType is the (synthetic) dynamic type of intrinsic error values.
var errObjType = types.NewPointer(types.NewNamed(types.NewTypeName(0, nil, "intrinsicError", nil), types.NewStruct(nil, nil), nil))

func (m *Machine) freshVar(prefix string, s Sort) *Term {
	m.fresh++
	return m.ctx.Var(fmt.Sprintf("$%s%d", prefix, m.fresh), s)
}

// intercept handles vrt calls and intrinsics.  Returns (value, true) if handled.
func (m *Machine) intercept(fn *ssa.Function, args []Value) (Value, bool) {
	if isVrtMethod(fn) {
		return m.vrtCall(fn.Name(), args[1:]), true
	}
	if fn.Name() == "vrtServe" && fn.Pkg != nil && fn.Pkg.Pkg.Path() == cmdPkg {
		// harness-side server start: registers the served directory for the identity transport
		base := fmt.Sprintf("http://vrt%d.test", len(m.env.served))
		m.env.served[base] = m.mustStr(args[0])
		return m.strConst(base), true
	}
	name := fn.String()
	c := m.ctx
	switch name {
	// ---- math
	case "math.IsNaN":
		return c.FIsNaN(args[0].(*Term)), true
	case "math.NaN":
		return c.F64b(0x7FF8000000000001), true
	case "math.Inf":
		s := args[0].(*Term)
		if v, ok := s.ConstInt64(); ok {
			if v >= 0 {
				return c.F64b(0x7FF0000000000000), true
			}
			return c.F64b(0xFFF0000000000000), true
		}
		return c.Ite(c.Le(c.IntI(s.Sort, 0), s), c.F64b(0x7FF0000000000000), c.F64b(0xFFF0000000000000)), true
	case "math.IsInf":
		f := args[0].(*Term)
		s := args[1].(*Term)
		pinf := c.FCmp(OFEq, f, c.F64b(0x7FF0000000000000))
		ninf := c.FCmp(OFEq, f, c.F64b(0xFFF0000000000000))
		sv, ok := s.ConstInt64()
		if !ok {
			m.unsupported("math.IsInf with symbolic sign")
		}
		switch {
		case sv > 0:
			return pinf, true
		case sv < 0:
			return ninf, true
		}
		return c.Or(pinf, ninf), true
	case "math.Float64bits", "math.Float32bits":
		return c.FBits(args[0].(*Term)), true
	case "math.Float64frombits", "math.Float32frombits":
		return c.FFromBits(args[0].(*Term)), true
	case "math.Abs":
		f := args[0].(*Term)
		return c.Ite(c.FCmp(OFLt, f, c.Zero(f.Sort)), c.FNeg(f), f), true
	case "math.Max", "math.Min":
		x, y := args[0].(*Term), args[1].(*Term)
		nan := c.Or(c.FIsNaN(x), c.FIsNaN(y))
		var pick *Term
		if name == "math.Max" {
			pick = c.Ite(c.FCmp(OFLt, x, y), y, x)
		} else {
			pick = c.Ite(c.FCmp(OFLt, y, x), y, x)
		}
		return c.Ite(nan, c.F64b(0x7FF8000000000001), pick), true
	case "math.Trunc", "math.Floor":
		m.unsupported(name)
	// ---- errors / fmt
	case "errors.New":
		m.stub(name)
		return m.newErr(m.mustStr(args[0]), nil), true
	case "fmt.Errorf":
		m.stub(name)
		format := m.mustStr(args[0])
		var wrapped Value
		va := args[1].(SliceV)
		if strings.Contains(format, "%w") {
			for i := 0; i < va.len; i++ {
				if iv, ok := m.load(va.arr.elems[va.off+i]).(IfaceV); ok && iv.t != nil {
					if _, isErr := iv.v.(*ErrObj); isErr || m.implementsError(iv.t) {
						wrapped = iv
					}
				}
			}
		}
		return m.newErr(m.sprintfApprox(format, va), wrapped), true
	case "fmt.Sprintf":
		m.stub(name)
		return m.sprintf(m.mustStr(args[0]), args[1].(SliceV)), true
	case "fmt.Sprint":
		m.stub(name)
		return m.sprintf("%v", args[0].(SliceV)), true
	case "errors.As":
		m.stub(name)
		return m.errorsAs(args[0].(IfaceV), args[1].(IfaceV)), true
	case "errors.Is":
		m.stub(name)
		return m.errorsIs(args[0].(IfaceV), args[1].(IfaceV)), true
	case "errors.Unwrap":
		m.stub(name)
		iv := args[0].(IfaceV)
		if eo, ok := iv.v.(*ErrObj); ok && eo.wrapped != nil {
			return eo.wrapped, true
		}
		return IfaceV{}, true
	// ---- strings
	case "strings.IndexRune", "strings.IndexByte":
		m.stub(name)
		return m.stringsIndex(args[0].(StringV), args[1].(*Term)), true
	case "bytes.IndexByte", "internal/bytealg.IndexByte":
		m.stub(name)
		sl := args[0].(SliceV)
		var bs []*Term
		if sl.arr != nil {
			bs = m.sliceBytes(sl)
		}
		return m.stringsIndex(StringV{b: bs}, args[1].(*Term)), true
	case "internal/bytealg.IndexByteString":
		m.stub(name)
		return m.stringsIndex(args[0].(StringV), args[1].(*Term)), true
	case "internal/stringslite.Clone", "strings.Clone":
		return args[0], true
	case "strings.ContainsAny":
		m.stub(name)
		return c.Bool(strings.ContainsAny(m.mustStr(args[0]), m.mustStr(args[1]))), true
	case "strings.Contains", "strings.HasPrefix", "strings.HasSuffix", "strings.TrimSuffix", "strings.TrimPrefix", "strings.ReplaceAll", "strings.Index", "strings.Split", "strings.TrimSpace", "strings.TrimRight", "strings.TrimLeft", "strings.Join":
		m.stub(name)
		return m.stringsConcrete(name, args), true
	case "(*strings.Builder).WriteString":
		m.builderAppend(args[0].(Pointer), args[1].(StringV).b)
		return TupleV{c.IntI(SI64, int64(len(args[1].(StringV).b))), IfaceV{}}, true
	case "(*strings.Builder).WriteByte":
		m.builderAppend(args[0].(Pointer), []*Term{args[1].(*Term)})
		return IfaceV{}, true
	case "(*strings.Builder).String":
		return StringV{b: m.builderBytes(args[0].(Pointer))}, true
	case "(*strings.Builder).Len":
		return c.IntI(SI64, int64(len(m.builderBytes(args[0].(Pointer))))), true
	// ---- sort: real SSA is executed (see engine); nothing here
	// ---- strconv
	case "strconv.FormatFloat":
		m.stub(name)
		return m.opaqueText("float", args[0]), true
	case "strconv.Itoa":
		m.stub(name)
		return m.formatDecimal(args[0].(*Term)), true
	}
	if v, ok := m.envIntrinsic(name, fn, args); ok {
		return v, true
	}
	return nil, false
}

func (m *Machine) implementsError(t types.Type) bool {
	ms := m.prog.MethodSets.MethodSet(t)
	for i := 0; i < ms.Len(); i++ {
		if ms.At(i).Obj().Name() == "Error" {
			return true
		}
	}
	return false
}

func (m *Machine) intrinsicClosure(fv *FuncV, args []Value) Value {
	if strings.HasPrefix(fv.intr, "builtin:") {
		return m.builtin(strings.TrimPrefix(fv.intr, "builtin:"), args, nil)
	}
	if v, ok := m.envClosure(fv, args); ok {
		return v
	}
	m.unsupported("intrinsic closure " + fv.intr)
	return nil
}

// ------------------------------------------------------------ vrt

func (m *Machine) vrtCall(name string, a []Value) Value {
	c := m.ctx
	str := func(i int) string { return m.mustStr(a[i]) }
	intArg := func(i int) int {
		v, ok := a[i].(*Term).ConstInt64()
		if !ok {
			m.unsupported("vrt." + name + ": argument must be concrete")
		}
		return int(v)
	}
	switch name {
	case "U8":
		return c.Var(str(0), SU8)
	case "U16":
		return c.Var(str(0), SU16)
	case "U32":
		return c.Var(str(0), SU32)
	case "U64":
		return c.Var(str(0), SU64)
	case "I32":
		return c.Var(str(0), SI32)
	case "I64", "Int":
		return c.Var(str(0), SI64)
	case "Bool":
		return c.Var(str(0), SBool)
	case "F64":
		return c.FFromBits(c.Var(str(0), SU64))
	case "F32":
		return c.FFromBits(c.Var(str(0), SU32))
	case "N":
		return m.strConst(fmt.Sprintf("%s_%d", str(0), intArg(1)))
	case "Bytes":
		n := intArg(1)
		ts := make([]*Term, n)
		for i := range ts {
			ts[i] = c.Var(fmt.Sprintf("%s[%d]", str(0), i), SU8)
		}
		return m.bytesSlice(ts)
	case "Str":
		n := intArg(1)
		ts := make([]*Term, n)
		for i := range ts {
			ts[i] = c.Var(fmt.Sprintf("%s[%d]", str(0), i), SU8)
		}
		return StringV{b: ts}
	case "Assume":
		m.sideEffect("vrt.Assume")
		m.doAssume(a[0].(*Term))
		return nil
	case "Assert":
		m.sideEffect("vrt.Assert")
		m.doAssert(a[0].(*Term), str(1))
		return nil
	case "Reach":
		m.sideEffect("vrt.Reach")
		m.res.Reach[str(0)] = true
		return nil
	case "Choose":
		m.sideEffect("vrt.Choose")
		n := intArg(1)
		v := m.chooseFree(str(0), n)
		return c.IntI(SI64, int64(v))
	case "Known":
		m.sideEffect("vrt.Known")
		if m.knownKeys[str(0)] {
			m.knownActive[str(0)] = a[1].(*Term)
			m.res.TouchedKnown = true
		}
		return nil
	case "Tier":
		if m.tier == "thorough" {
			return c.IntI(SI64, 1)
		}
		return c.IntI(SI64, 0)
	case "KnownOff":
		delete(m.knownActive, str(0))
		return nil
	case "AllocLimit":
		m.allocLimit = int64(intArg(0))
		return nil
	case "AllocBytes":
		return c.IntI(SI64, m.allocBytes)
	case "IsSymbolic":
		return c.Bool(true)
	case "IteU32", "IteI64", "IteF64":
		return c.Ite(a[0].(*Term), a[1].(*Term), a[2].(*Term))
	case "And":
		return c.And(a[0].(*Term), a[1].(*Term))
	case "Or":
		return c.Or(a[0].(*Term), a[1].(*Term))
	case "Implies":
		return c.Or(c.Not(a[0].(*Term)), a[1].(*Term))
	case "F32FromBits", "F64FromBits":
		return c.FFromBits(a[0].(*Term))
	case "F64Bits", "F32Bits":
		return c.FBits(a[0].(*Term))
	case "SameBits32":
		return c.Eq(c.FBits(a[0].(*Term)), c.FBits(a[1].(*Term)))
	case "SameBits":
		// exact bit equality of two float64 (NaN payloads included)
		return c.Eq(c.FBits(a[0].(*Term)), c.FBits(a[1].(*Term)))
	}
	if v, ok := m.vrtEnvCall(name, a); ok {
		return v
	}
	m.unsupported("vrt." + name)
	return nil
}

// chooseFree: an n-way case split with no solver involvement.
func (m *Machine) chooseFree(name string, n int) int {
	if n <= 0 {
		panic(pathEnd{"infeasible", "Choose with n<=0"})
	}
	m.res.Branches++
	var v int
	if m.dpos < len(m.decisions) {
		v = m.decisions[m.dpos].Val
		m.dpos++
	} else {
		for k := 1; k < n; k++ {
			alt := append(append([]Decision(nil), m.decisions...), Decision{k, false})
			m.forks = append(m.forks, alt)
		}
		m.recordDecision(0, false)
		v = 0
	}
	m.choices[name] = v
	return v
}

// ------------------------------------------------------------ fmt

// formatDecimal: axiomatic decimal printer (DESIGN §1.6).
func (m *Machine) formatDecimal(n *Term) StringV {
	c := m.ctx
	if v, ok := n.ConstInt64(); ok {
		return m.strConst(fmt.Sprintf("%d", v))
	}
	m.sideEffect("formatDecimal")
	var out []*Term
	wide := SI64
	x := c.Conv(n, wide)
	if n.Sort.Signed && n.Sort.W == 64 {
		m.unsupported("decimal formatting of symbolic 64-bit signed")
	}
	if !n.Sort.Signed && n.Sort.W == 64 {
		m.unsupported("decimal formatting of symbolic 64-bit unsigned")
	}
	if n.Sort.Signed {
		if m.branch(c.Lt(x, c.IntI(wide, 0))) {
			out = append(out, c.IntI(SU8, '-'))
			x = c.Neg(x)
		}
	}
	k := 1
	p := big.NewInt(10)
	for ; k < 20; k++ {
		if m.branch(c.Lt(x, c.Int(wide, p))) {
			break
		}
		p = new(big.Int).Mul(p, big.NewInt(10))
	}
	// digits d[k-1] .. d[0]
	sum := c.IntI(wide, 0)
	digs := make([]*Term, k)
	pw := big.NewInt(1)
	for i := 0; i < k; i++ {
		d := m.freshVar("dig", wide)
		m.assertPC(c.And(c.Le(c.IntI(wide, 0), d), c.Le(d, c.IntI(wide, 9))))
		digs[i] = d
		sum = c.Arith(OAdd, sum, c.Arith(OMul, d, c.Int(wide, pw)))
		pw = new(big.Int).Mul(pw, big.NewInt(10))
	}
	m.assertPC(c.Eq(sum, x))
	for i := k - 1; i >= 0; i-- {
		out = append(out, c.Conv(c.Arith(OAdd, digs[i], c.IntI(wide, '0')), SU8))
	}
	return StringV{b: out}
}

func (m *Machine) opaqueText(kind string, v Value) StringV {
	// text whose content is not modelled (float/time rendering): a fixed placeholder
	return m.strConst("<" + kind + ">")
}

func (m *Machine) formatArg(verb byte, arg Value) StringV {
	iv, isIface := arg.(IfaceV)
	if !isIface {
		return m.strConst("?")
	}
	if iv.t == nil {
		return m.strConst("<nil>")
	}
	// Stringer / error
	if eo, ok := iv.v.(*ErrObj); ok {
		return m.strConst(eo.msg)
	}
	if verb == 's' || verb == 'v' || verb == 'q' {
		if meth := m.findMethod(iv.t, "String"); meth != nil && m.merge == nil {
			r := m.callFunction(meth, []Value{iv.v})
			if s, ok := r.(StringV); ok {
				return s
			}
		}
		if meth := m.findMethod(iv.t, "Error"); meth != nil && m.merge == nil {
			r := m.callFunction(meth, []Value{iv.v})
			if s, ok := r.(StringV); ok {
				return s
			}
		}
	}
	switch x := iv.v.(type) {
	case StringV:
		return x
	case *Term:
		switch x.Sort.K {
		case KInt:
			if verb == 'd' || verb == 'v' {
				return m.formatDecimal(x)
			}
		case KBool:
			if b, ok := x.ConstInt64(); ok {
				_ = b
			}
			return m.strConst("<bool>")
		default:
			return m.opaqueText("float", x)
		}
	}
	return m.strConst("<" + types.TypeString(iv.t, nil) + ">")
}

func (m *Machine) sprintf(format string, va SliceV) StringV {
	var out []*Term
	ai := 0
	for i := 0; i < len(format); i++ {
		ch := format[i]
		if ch != '%' {
			out = append(out, m.ctx.IntI(SU8, int64(ch)))
			continue
		}
		i++
		if i >= len(format) {
			break
		}
		// skip flags/width
		for i < len(format) && strings.ContainsRune("+-# 0123456789.", rune(format[i])) {
			i++
		}
		if i >= len(format) {
			break
		}
		verb := format[i]
		if verb == '%' {
			out = append(out, m.ctx.IntI(SU8, '%'))
			continue
		}
		if ai < va.len {
			arg := m.load(va.arr.elems[va.off+ai])
			ai++
			out = append(out, m.formatArg(verb, arg).b...)
		} else {
			out = append(out, m.strConst("%!"+string(verb)+"(MISSING)").b...)
		}
	}
	return StringV{b: out}
}

// sprintfApprox renders an error message; symbolic parts are replaced by placeholders and
// nothing forks (error text is never the subject of a property).
func (m *Machine) sprintfApprox(format string, va SliceV) string {
	return format
}

func (m *Machine) errorsAs(err IfaceV, target IfaceV) Value {
	// target is a non-nil pointer to a variable of some type T
	tp, ok := target.v.(Pointer)
	if !ok || tp.loc == nil {
		m.goPanic("errors.As: target must be a non-nil pointer")
	}
	tt := target.t.(*types.Pointer).Elem()
	cur := err
	for depth := 0; depth < 16 && cur.t != nil; depth++ {
		if _, isErrObj := cur.v.(*ErrObj); !isErrObj {
			if types.AssignableTo(cur.t, tt) {
				m.store(tp.loc, cur.v)
				if types.IsInterface(tt) {
					m.store(tp.loc, cur)
				}
				return m.ctx.Bool(true)
			}
		} else if types.IsInterface(tt) && tt.Underlying().(*types.Interface).NumMethods() <= 1 {
			m.store(tp.loc, cur)
			return m.ctx.Bool(true)
		}
		// unwrap
		next := IfaceV{}
		if eo, ok := cur.v.(*ErrObj); ok {
			if w, ok := eo.wrapped.(IfaceV); ok {
				next = w
			}
		} else if meth := m.findMethod(cur.t, "Unwrap"); meth != nil {
			if r, ok := m.callFunction(meth, []Value{cur.v}).(IfaceV); ok {
				next = r
			}
		}
		cur = next
	}
	return m.ctx.Bool(false)
}

func (m *Machine) errorsIs(err IfaceV, target IfaceV) Value {
	cur := err
	for depth := 0; depth < 16 && cur.t != nil; depth++ {
		if eq := m.valuesEqual(cur, target); eq.IsTrue() {
			return eq
		}
		next := IfaceV{}
		if eo, ok := cur.v.(*ErrObj); ok {
			if w, ok := eo.wrapped.(IfaceV); ok {
				next = w
			}
		} else if meth := m.findMethod(cur.t, "Unwrap"); meth != nil {
			if r, ok := m.callFunction(meth, []Value{cur.v}).(IfaceV); ok {
				next = r
			}
		}
		cur = next
	}
	return m.ctx.Bool(false)
}

// ------------------------------------------------------------ strings

func (m *Machine) stringsIndex(s StringV, needle *Term) Value {
	c := m.ctx
	nc, ok := needle.ConstInt64()
	if !ok || nc >= 0x80 {
		m.unsupported("strings.IndexRune with symbolic/non-ASCII needle")
	}
	nb := c.IntI(SU8, nc)
	// result = first i with s[i]==needle else -1 ; built as nested ite (no forking)
	res := c.IntI(SI64, -1)
	for i := len(s.b) - 1; i >= 0; i-- {
		res = c.Ite(c.Eq(s.b[i], nb), c.IntI(SI64, int64(i)), res)
	}
	return res
}

func (m *Machine) stringsConcrete(name string, args []Value) Value {
	strs := make([]string, 0, len(args))
	for _, a := range args {
		if sv, ok := a.(StringV); ok {
			s, ok := strConcrete(sv)
			if !ok {
				m.unsupported(name + " on symbolic string")
			}
			strs = append(strs, s)
		}
	}
	c := m.ctx
	switch name {
	case "strings.Contains":
		return c.Bool(strings.Contains(strs[0], strs[1]))
	case "strings.HasPrefix":
		return c.Bool(strings.HasPrefix(strs[0], strs[1]))
	case "strings.HasSuffix":
		return c.Bool(strings.HasSuffix(strs[0], strs[1]))
	case "strings.TrimSuffix":
		return m.strConst(strings.TrimSuffix(strs[0], strs[1]))
	case "strings.TrimPrefix":
		return m.strConst(strings.TrimPrefix(strs[0], strs[1]))
	case "strings.TrimSpace":
		return m.strConst(strings.TrimSpace(strs[0]))
	case "strings.TrimRight":
		return m.strConst(strings.TrimRight(strs[0], strs[1]))
	case "strings.TrimLeft":
		return m.strConst(strings.TrimLeft(strs[0], strs[1]))
	case "strings.ReplaceAll":
		return m.strConst(strings.ReplaceAll(strs[0], strs[1], strs[2]))
	case "strings.Index":
		return c.IntI(SI64, int64(strings.Index(strs[0], strs[1])))
	case "strings.Split":
		parts := strings.Split(strs[0], strs[1])
		vals := make([]Value, len(parts))
		for i, p := range parts {
			vals[i] = m.strConst(p)
		}
		return m.makeSliceOf(types.Typ[types.String], vals)
	case "strings.Join":
		sl := args[0].(SliceV)
		var out []*Term
		sep := args[1].(StringV)
		for i := 0; i < sl.len; i++ {
			if i > 0 {
				out = append(out, sep.b...)
			}
			out = append(out, m.load(sl.arr.elems[sl.off+i]).(StringV).b...)
		}
		return StringV{b: out}
	}
	m.unsupported(name)
	return nil
}

func (m *Machine) builderCell(p Pointer) *Cell {
	sl, ok := p.loc.(*StructLoc)
	if !ok {
		m.unsupported("strings.Builder receiver")
	}
	return sl.fields[1].(*Cell) // field buf []byte
}

func (m *Machine) builderBytes(p Pointer) []*Term {
	cell := m.builderCell(p)
	s, _ := cell.v.(SliceV)
	if s.arr == nil {
		return nil
	}
	return m.sliceBytes(s)
}

func (m *Machine) builderAppend(p Pointer, b []*Term) {
	cell := m.builderCell(p)
	old := m.builderBytes(p)
	nb := append(append([]*Term(nil), old...), b...)
	m.store(cell, m.bytesSlice(nb))
}

// findMethod returns the method named name of type t (exported or not), or nil.
func (m *Machine) findMethod(t types.Type, name string) *ssa.Function {
	ms := m.prog.MethodSets.MethodSet(t)
	for i := 0; i < ms.Len(); i++ {
		if ms.At(i).Obj().Name() == name {
			return m.prog.MethodValue(ms.At(i))
		}
	}
	return nil
}
