package main

// Runtime values and memory of the symbolic interpreter.

import (
	"fmt"
	"strings"
	"go/types"

	"golang.org/x/tools/go/ssa"
)

type Value interface{}

// Loc is an addressable storage location: *Cell, *StructLoc, *ArrayLoc or an opaque engine
// object (*FileObj, *FileBufObj, ...).
type Loc interface{}

type Cell struct {
	v     Value
	owner int // frame serial that allocated it (for merge-mode purity check); 0 = global/harness
}

type StructLoc struct {
	fields []Loc
	owner  int
}

type ArrayLoc struct {
	elems []Loc
	elemT types.Type
	owner int
}

type Pointer struct{ loc Loc } // loc == nil: nil pointer

type SliceV struct {
	arr           *ArrayLoc // nil: nil slice
	off, len, cap int
}

type StringV struct{ b []*Term } // bytes as u8 terms

type StructV struct{ f []Value }
type ArrayV struct{ e []Value }
type TupleV []Value

type IfaceV struct {
	t types.Type // nil: nil interface
	v Value
}

type FuncV struct {
	fn    *ssa.Function
	binds []Value
	recv  Value // bound method receiver (when hasRecv)
	hasRecv bool
	intr  string // intrinsic closure name
	data  interface{}
}

type MapV struct {
	keys []string // insertion order of key reprs
	m    map[string]Value
	kv   map[string]Value // key repr -> key value
}

// ErrObj is an error value produced by an intrinsic (errors.New, fmt.Errorf, env faults).
type ErrObj struct {
	msg      string
	wrapped  Value // IfaceV or nil
	notExist bool
	site     string
}

func isNilValue(v Value) bool {
	switch x := v.(type) {
	case nil:
		return true
	case Pointer:
		return x.loc == nil
	case SliceV:
		return x.arr == nil
	case IfaceV:
		return x.t == nil
	case *FuncV:
		return x == nil
	case *MapV:
		return x == nil
	}
	return false
}

func sortOfBasic(b *types.Basic) (Sort, bool) {
	switch b.Kind() {
	case types.Bool, types.UntypedBool:
		return SBool, true
	case types.Int8:
		return SI8, true
	case types.Int16:
		return SI16, true
	case types.Int32, types.UntypedRune:
		return SI32, true
	case types.Int, types.Int64, types.UntypedInt:
		return SI64, true
	case types.Uint8:
		return SU8, true
	case types.Uint16:
		return SU16, true
	case types.Uint32:
		return SU32, true
	case types.Uint, types.Uint64, types.Uintptr:
		return SU64, true
	case types.Float32:
		return SF32, true
	case types.Float64, types.UntypedFloat:
		return SF64, true
	}
	return Sort{}, false
}

func sortOfType(t types.Type) (Sort, bool) {
	if b, ok := t.Underlying().(*types.Basic); ok {
		return sortOfBasic(b)
	}
	return Sort{}, false
}

func (m *Machine) zero(t types.Type) Value {
	switch u := t.Underlying().(type) {
	case *types.Basic:
		if u.Kind() == types.String || u.Kind() == types.UntypedString {
			return StringV{}
		}
		if u.Kind() == types.UnsafePointer {
			return Pointer{}
		}
		if u.Kind() == types.UntypedNil {
			return nil
		}
		s, ok := sortOfBasic(u)
		if !ok {
			m.unsupported("zero of basic " + u.String())
		}
		return m.ctx.Zero(s)
	case *types.Pointer:
		return Pointer{}
	case *types.Slice:
		return SliceV{}
	case *types.Struct:
		sv := &StructV{f: make([]Value, u.NumFields())}
		for i := range sv.f {
			sv.f[i] = m.zero(u.Field(i).Type())
		}
		return sv
	case *types.Array:
		av := &ArrayV{e: make([]Value, u.Len())}
		for i := range av.e {
			av.e[i] = m.zero(u.Elem())
		}
		return av
	case *types.Interface:
		return IfaceV{}
	case *types.Signature:
		return (*FuncV)(nil)
	case *types.Map:
		return (*MapV)(nil)
	case *types.Chan:
		return nil
	case *types.Tuple:
		tv := make(TupleV, u.Len())
		for i := range tv {
			tv[i] = m.zero(u.At(i).Type())
		}
		return tv
	}
	m.unsupported("zero of type " + t.String())
	return nil
}

func (m *Machine) newLoc(t types.Type) Loc {
	owner := m.curOwner()
	switch u := t.Underlying().(type) {
	case *types.Struct:
		sl := &StructLoc{fields: make([]Loc, u.NumFields()), owner: owner}
		for i := range sl.fields {
			sl.fields[i] = m.newLoc(u.Field(i).Type())
		}
		return sl
	case *types.Array:
		return m.newArray(u.Elem(), int(u.Len()))
	}
	return &Cell{v: m.zero(t), owner: owner}
}

func (m *Machine) newArray(elem types.Type, n int) *ArrayLoc {
	al := &ArrayLoc{elems: make([]Loc, n), elemT: elem, owner: m.curOwner()}
	// fast path for scalar elements: share the zero term
	if _, isStruct := elem.Underlying().(*types.Struct); !isStruct {
		if _, isArr := elem.Underlying().(*types.Array); !isArr {
			z := m.zero(elem)
			for i := range al.elems {
				al.elems[i] = &Cell{v: z, owner: al.owner}
			}
			return al
		}
	}
	for i := range al.elems {
		al.elems[i] = m.newLoc(elem)
	}
	return al
}

func (m *Machine) load(l Loc) Value {
	switch x := l.(type) {
	case *Cell:
		return x.v
	case *StructLoc:
		sv := &StructV{f: make([]Value, len(x.fields))}
		for i, f := range x.fields {
			sv.f[i] = m.load(f)
		}
		return sv
	case *ArrayLoc:
		av := &ArrayV{e: make([]Value, len(x.elems))}
		for i, e := range x.elems {
			av.e[i] = m.load(e)
		}
		return av
	case nil:
		m.goPanic("nil pointer dereference")
	}
	// opaque objects load as themselves (e.g. *os.File pointee never loaded by repo code)
	return l
}

func locOwner(l Loc) int {
	switch x := l.(type) {
	case *Cell:
		return x.owner
	case *StructLoc:
		return x.owner
	case *ArrayLoc:
		return x.owner
	}
	return 0
}

func (m *Machine) store(l Loc, v Value) {
	if m.merge != nil && locOwner(l) < m.merge.baseOwner {
		panic(mergeAbort{"store to outer memory"})
	}
	if m.frameMark > 0 && locOwner(l) < m.frameMark && m.fr != nil && !strings.HasPrefix(m.fr.fn.Name(), "Verif") && !strings.HasPrefix(m.fr.fn.Name(), "vrt") {
		m.frameViol = append(m.frameViol, m.position())
	}
	if m.workerStores != nil && locOwner(l) < m.workerBase {
		m.workerStores[l] = true
	}
	m.storeRaw(l, v)
}

func (m *Machine) storeRaw(l Loc, v Value) {
	switch x := l.(type) {
	case *Cell:
		x.v = v
	case *StructLoc:
		sv, ok := v.(*StructV)
		if !ok {
			m.unsupported(fmt.Sprintf("store non-struct %T into struct loc", v))
		}
		for i, f := range x.fields {
			m.storeRaw(f, sv.f[i])
		}
	case *ArrayLoc:
		av, ok := v.(*ArrayV)
		if !ok {
			m.unsupported(fmt.Sprintf("store non-array %T into array loc", v))
		}
		for i, e := range x.elems {
			m.storeRaw(e, av.e[i])
		}
	case nil:
		m.goPanic("nil pointer dereference (store)")
	default:
		m.unsupported(fmt.Sprintf("store into opaque %T", l))
	}
}

// concrete string helpers
func (m *Machine) strConst(s string) StringV {
	b := make([]*Term, len(s))
	for i := 0; i < len(s); i++ {
		b[i] = m.ctx.IntI(SU8, int64(s[i]))
	}
	return StringV{b: b}
}

func strConcrete(s StringV) (string, bool) {
	out := make([]byte, len(s.b))
	for i, t := range s.b {
		v, ok := t.ConstInt64()
		if !ok {
			return "", false
		}
		out[i] = byte(v)
	}
	return string(out), true
}

func (m *Machine) mustStr(v Value) string {
	s, ok := v.(StringV)
	if !ok {
		m.unsupported(fmt.Sprintf("expected string, got %T", v))
	}
	c, ok := strConcrete(s)
	if !ok {
		m.unsupported("expected concrete string")
	}
	return c
}

func (m *Machine) sliceElems(s SliceV) []Loc {
	if s.arr == nil {
		return nil
	}
	return s.arr.elems[s.off : s.off+s.len]
}

func (m *Machine) makeSliceOf(elem types.Type, vals []Value) SliceV {
	arr := m.newArray(elem, len(vals))
	for i, v := range vals {
		m.storeRaw(arr.elems[i], v)
	}
	return SliceV{arr: arr, off: 0, len: len(vals), cap: len(vals)}
}

func (m *Machine) bytesSlice(ts []*Term) SliceV {
	arr := &ArrayLoc{elems: make([]Loc, len(ts)), elemT: types.Typ[types.Uint8], owner: m.curOwner()}
	for i, t := range ts {
		arr.elems[i] = &Cell{v: t, owner: arr.owner}
	}
	return SliceV{arr: arr, len: len(ts), cap: len(ts)}
}

func (m *Machine) sliceBytes(s SliceV) []*Term {
	out := make([]*Term, s.len)
	for i := 0; i < s.len; i++ {
		out[i] = s.arr.elems[s.off+i].(*Cell).v.(*Term)
	}
	return out
}
