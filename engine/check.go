package main

import (
	"encoding/json"
	"fmt"
	"os"
	"os/exec"
	"path/filepath"
	"sort"
	"strconv"
	"strings"
	"time"
)

type KnownFinding struct {
	Property string `json:"property"`
	Key      string `json:"key"`
	Status   string `json:"status"` // known | fixed
	Commit   string `json:"commit,omitempty"`
	What     string `json:"what"`
}

func loadKnown() []KnownFinding {
	b, err := os.ReadFile(filepath.Join(verifDir, "known_findings.json"))
	if err != nil {
		return nil
	}
	var k struct {
		Findings []KnownFinding `json:"findings"`
	}
	if err := json.Unmarshal(b, &k); err != nil {
		fatal(2, "known_findings.json: %v", err)
	}
	return k.Findings
}

func contains(ss []string, s string) bool {
	for _, x := range ss {
		if x == s {
			return true
		}
	}
	return false
}

func runCheck(prop, tier string, workers int, only string, noReplay bool) int {
	t0 := time.Now()
	os.Setenv("VERIF_TIER_EFFECTIVE", tier)
	specs := loadSpecs()
	ps, ok := specs[prop]
	if !ok {
		fatal(2, "no spec for property %s", prop)
	}
	known := map[string]bool{}
	knownWhat := map[string]string{}
	for _, k := range loadKnown() {
		if k.Property == prop && k.Status == "known" {
			known[k.Key] = true
			knownWhat[k.Key] = k.What
		}
	}
	withCmd := false
	var todo []HarnessSpec
	for _, h := range ps.Harnesses {
		if len(h.Tiers) > 0 && !contains(h.Tiers, tier) {
			continue
		}
		if only != "" && !strings.Contains(h.Fn, only) {
			continue
		}
		if h.Pkg == "cmd" {
			withCmd = true
		}
		todo = append(todo, h)
	}
	if len(todo) == 0 {
		fatal(2, "no harness selected for %s tier %s", prop, tier)
	}
	tl := time.Now()
	ld := loadProgram(withCmd)
	loadDur := time.Since(tl)

	wallCap := 8 * time.Minute
	if tier == "thorough" {
		wallCap = 60 * time.Minute
	}
	var results []*HarnessResult
	for _, h := range todo {
		hr := exploreHarness(ld, h, tier, workers, known, wallCap)
		results = append(results, hr)
		fmt.Printf("harness %-34s paths=%-6d obligations=%-6d discharged=%-6d trivial=%-6d violations=%d incon=%d sat/unsat/unk=%d/%d/%d solver=%.1fs wall=%.1fs merged=%d kinds=%v\n",
			h.Fn, hr.Paths, hr.Obligations, hr.Discharged, hr.Trivial, len(hr.Violations), len(hr.Incon), hr.NSat, hr.NUnsat, hr.NUnknown, hr.SolverTime.Seconds(), hr.Wall.Seconds(), hr.Merged, hr.PathKinds)
		if os.Getenv("VERIF_QSTATS") != "" {
			fmt.Printf("   query time buckets (<10ms,<100ms,<1s,<10s,>=10s): %v  time: %v\n", hr.Buckets, hr.BucketT)
		}
	}

	// --- verdicts
	exit := 0
	outDir := filepath.Join(scratchBase(), "out", prop)
	os.RemoveAll(outDir)
	os.MkdirAll(outDir, 0755)
	var rp *Replayer
	defer func() {
		if rp != nil {
			rp.Cleanup()
		}
	}()
	nviol := 0
	nreplayed := 0
	var inconAll []string
	for _, hr := range results {
		// vacuity: every harness must reach at least one Reach point and have >0 obligations
		if len(hr.Reach) == 0 {
			inconAll = append(inconAll, hr.Spec.Fn+": no Reach point reached (vacuous harness)")
		}
		if hr.Truncated {
			inconAll = append(inconAll, hr.Spec.Fn+": exploration truncated (path/time cap)")
		}
		for _, s := range hr.Incon {
			inconAll = append(inconAll, hr.Spec.Fn+": "+s)
		}
		// dedupe violations by label
		seen := map[string]int{}
		for i := range hr.Violations {
			v := &hr.Violations[i]
			seen[v.Label]++
			if seen[v.Label] > 2 {
				continue
			}
			cex := filepath.Join(outDir, fmt.Sprintf("cex-%s-%d.json", hr.Spec.Fn, i))
			writeJSON(cex, v)
			if noReplay {
				fmt.Printf("CANDIDATE property=%s harness=%s label=%q where=%s model=%v choices=%v\n", prop, hr.Spec.Fn, v.Label, v.Where, v.Model, v.Choices)
				nviol++
				continue
			}
			if strings.HasPrefix(v.Label, "C17.") || strings.Contains(v.Label, "[static]") {
				// non-interference obligations: the evidence is the store site found by the executor;
				// a data race is schedule dependent and is not replayed natively (DESIGN section 4, C17)
				fmt.Printf("VIOLATION property=%s replay=%s\n", prop, cex)
				fmt.Printf("  harness=%s label=%q where=%s (static non-interference violation, not replayed)\n", hr.Spec.Fn, v.Label, v.Where)
				nviol++
				exit = 1
				continue
			}
			if rp == nil {
				rp = NewReplayer(ld)
			}
			ok, out := rp.Replay(hr.Spec, v, cex)
			nreplayed++
			if ok {
				fmt.Printf("VIOLATION property=%s replay=%s\n", prop, cex)
				fmt.Printf("  harness=%s label=%q where=%s\n", hr.Spec.Fn, v.Label, v.Where)
				nviol++
				exit = 1
			} else {
				msg := fmt.Sprintf("%s: ENCODING-MISMATCH: counterexample for %q did not reproduce natively (%s): %s", hr.Spec.Fn, v.Label, cex, lastLines(out, 6))
				inconAll = append(inconAll, msg)
			}
		}
		// translator validation: witnesses of completed paths are run natively; every assertion must hold
		if !noReplay && os.Getenv("VERIF_NO_WITNESS") == "" {
			for i := range hr.Witnesses {
				wv := &hr.Witnesses[i]
				wf := filepath.Join(outDir, fmt.Sprintf("witness-%s-%d.json", hr.Spec.Fn, i))
				writeJSON(wf, wv)
				if rp == nil {
					rp = NewReplayer(ld)
				}
				ok, out := rp.ReplayWitness(hr.Spec, wf)
				if ok {
					nreplayed++
				} else {
					inconAll = append(inconAll, fmt.Sprintf("%s: WITNESS-MISMATCH: a model of a completed path does not run cleanly natively (%s): %s", hr.Spec.Fn, wf, lastLines(out, 5)))
				}
			}
		}
		for k, n := range hr.Known {
			if n > 0 && known[k] {
				fmt.Printf("KNOWN-FINDING: property=%s %s [key=%s harness=%s]\n", prop, knownWhat[k], k, hr.Spec.Fn)
			}
		}
	}
	if exit == 0 && len(inconAll) > 0 {
		exit = 2
	}
	for _, s := range inconAll {
		fmt.Printf("INCONCLUSIVE: %s\n", s)
	}
	writeEvidence(prop, tier, ps, results, time.Since(t0), loadDur, nviol, nreplayed, inconAll)
	fmt.Printf("check %s tier=%s exit=%d wall=%.1fs\n", prop, tier, exit, time.Since(t0).Seconds())
	return exit
}

func lastLines(s string, n int) string {
	ls := strings.Split(strings.TrimSpace(s), "\n")
	if len(ls) > n {
		ls = ls[len(ls)-n:]
	}
	return strings.Join(ls, " | ")
}

func writeJSON(path string, v interface{}) {
	b, _ := json.MarshalIndent(v, "", " ")
	os.WriteFile(path, b, 0644)
}

func writeEvidence(prop, tier string, ps *PropSpec, results []*HarnessResult, wall, loadDur time.Duration, nviol, nreplayed int, incon []string) {
	seed := 0
	if s := os.Getenv("VERIF_SEED"); s != "" {
		seed, _ = strconv.Atoi(s)
	}
	fns := map[string]bool{}
	stubs := map[string]int{}
	var samples []interface{}
	paths, branches, obl, dis, triv := 0, 0, 0, 0, 0
	nsat, nunsat, nunk := 0, 0, 0
	var solverTime time.Duration
	var harnesses []map[string]interface{}
	var reach []string
	lowerings := map[string]bool{}
	for _, hr := range results {
		for f := range hr.Fns {
			if !strings.Contains(f, "Verif") && !strings.Contains(f, "vrtT") {
				fns[f] = true
			}
		}
		for k, v := range hr.Stubs {
			stubs[k] += v
		}
		for _, s := range hr.Samples {
			if len(samples) < 12 {
				samples = append(samples, s)
			}
		}
		paths += hr.Paths
		branches += hr.Branches
		obl += hr.Obligations
		dis += hr.Discharged
		triv += hr.Trivial
		nsat += hr.NSat
		nunsat += hr.NUnsat
		nunk += hr.NUnknown
		solverTime += hr.SolverTime
		lw := hr.Spec.Lowering
		if lw == "" {
			lw = "int"
		}
		lowerings[lw] = true
		var rs []string
		for k := range hr.Reach {
			rs = append(rs, k)
			reach = append(reach, hr.Spec.Fn+":"+k)
		}
		sort.Strings(rs)
		harnesses = append(harnesses, map[string]interface{}{
			"harness": hr.Spec.Fn, "paths": hr.Paths, "path_kinds": hr.PathKinds, "obligations": hr.Obligations,
			"discharged": hr.Discharged, "syntactic": hr.Trivial, "violations": len(hr.Violations), "lowering": lw,
			"wall_s": hr.Wall.Seconds(), "solver_s": hr.SolverTime.Seconds(), "reach": rs, "note": hr.Spec.Note,
			"merged_callee_summaries": hr.Merged,
		})
	}
	if len(samples) == 0 {
		samples = append(samples, map[string]string{"note": "all obligations were discharged syntactically by the simplifier"})
	}
	var fl []string
	for f := range fns {
		fl = append(fl, f)
	}
	sort.Strings(fl)
	var sl []string
	for k, v := range stubs {
		sl = append(sl, fmt.Sprintf("%s x%d", k, v))
	}
	sort.Strings(sl)
	sort.Strings(reach)
	var lws []string
	for k := range lowerings {
		lws = append(lws, k)
	}
	sort.Strings(lws)
	if paths == 0 {
		paths = 1
	}
	if branches == 0 {
		branches = 1
	}
	cov := map[string]interface{}{
		"states":                        paths,
		"transitions":                   branches,
		"traces_validated_against_impl": nreplayed,
		"obligations":                   obl,
		"discharged":                    dis,
		"discharged_syntactically":      triv,
		"samples":                       samples,
		"explanation":                   ps.Explanation,
		"functions_encoded":             fl,
		"bounds":                        ps.Bounds,
		"stubs":                         sl,
		"queries":                       map[string]int{"sat": nsat, "unsat": nunsat, "unknown": nunk},
		"solver_time_s":                 solverTime.Seconds(),
		"load_ssa_s":                    loadDur.Seconds(),
		"lowering":                      lws,
		"solvers":                       []string{"z3-new 5.1.0"},
		"vacuity_witnesses":             reach,
		"harnesses":                     harnesses,
		"inconclusive":                  incon,
		"evaluations":                   obl,
		"distinct_nontrivial":           dis - triv,
		"rule":                          "one evaluation = one obligation (harness assertion or implicit panic-freedom check) on one explored path; non-trivial = needed a solver query (not closed by the simplifier)",
		"exhaustive":                    false,
	}
	ev := map[string]interface{}{
		"property_id": prop,
		"tier":        tier,
		"seed":        seed,
		"level":       ps.Level,
		"coverage":    cov,
		"assumptions": ps.Assumptions,
		"wall_s":      wall.Seconds(),
		"violations":  nviol,
	}
	os.MkdirAll(filepath.Join(scratchBase(), "evidence"), 0755)
	writeJSON(filepath.Join(scratchBase(), "evidence", prop+".json"), ev)
}

// ------------------------------------------------------------ native replay

type Replayer struct {
	ld      *Loaded
	dir     string
	bins    map[string]string // pkg -> test binary
	failed  map[string]string
}

func NewReplayer(ld *Loaded) *Replayer {
	dir, err := os.MkdirTemp("/var/tmp", "verif-replay-")
	if err != nil {
		fatal(2, "mkdtemp: %v", err)
	}
	return &Replayer{ld: ld, dir: dir, bins: map[string]string{}, failed: map[string]string{}}
}

func (r *Replayer) Cleanup() { os.RemoveAll(r.dir) }

func goEnv() []string {
	return append(os.Environ(), "GOFLAGS=-mod=mod", "GOPROXY=off", "GOSUMDB=off", "GOTOOLCHAIN=local")
}

func (r *Replayer) build(pkg string) (string, string) {
	if b, ok := r.bins[pkg]; ok {
		return b, ""
	}
	if e, ok := r.failed[pkg]; ok {
		return "", e
	}
	pkgName, sub := "whispertool", ""
	spkg := r.ld.lib
	if pkg == "cmd" {
		pkgName, sub = "cmd", "cmd"
		spkg = r.ld.cmd
	}
	repl := map[string]string{}
	rt := filepath.Join(r.dir, pkg+"_rt.go")
	os.WriteFile(rt, rtSource(pkgName), 0644)
	repl[filepath.Join(repoDir, sub, "zz_verif_rt.go")] = rt
	for _, f := range harnessFiles(pkg) {
		repl[filepath.Join(repoDir, sub, "zz_verif_"+filepath.Base(f))] = f
	}
	// dispatcher test file
	var names []string
	for name := range spkg.Members {
		if strings.HasPrefix(name, "Verif") {
			if spkg.Func(name) != nil {
				names = append(names, name)
			}
		}
	}
	sort.Strings(names)
	var sb strings.Builder
	fmt.Fprintf(&sb, "package %s\n\nimport (\n\t\"os\"\n\t\"testing\"\n)\n\nfunc TestVerifReplay(t *testing.T) {\n\tvrtLoadModel()\n\tswitch os.Getenv(\"VERIF_HARNESS\") {\n", pkgName)
	for _, n := range names {
		fmt.Fprintf(&sb, "\tcase %q:\n\t\t%s()\n", n, n)
	}
	sb.WriteString("\tdefault:\n\t\tt.Fatal(\"unknown harness\")\n\t}\n\tvrtDone()\n}\n")
	tf := filepath.Join(r.dir, pkg+"_replay_test.go")
	os.WriteFile(tf, []byte(sb.String()), 0644)
	repl[filepath.Join(repoDir, sub, "zz_verif_replay_test.go")] = tf
	if pkg == "cmd" {
		for k, v := range clockOverlay(r.dir) {
			repl[k] = v
		}
	}
	ovf := filepath.Join(r.dir, pkg+"_overlay.json")
	writeJSON(ovf, map[string]interface{}{"Replace": repl})
	bin := filepath.Join(r.dir, pkg+".test")
	cmd := exec.Command("go", "test", "-c", "-vet=off", "-overlay", ovf, "-o", bin, "./"+sub)
	cmd.Dir = repoDir
	cmd.Env = append(goEnv(), "GOCACHE="+filepath.Join(r.dir, "gocache"))
	out, err := cmd.CombinedOutput()
	if err != nil {
		r.failed[pkg] = "native build failed: " + string(out)
		return "", r.failed[pkg]
	}
	r.bins[pkg] = bin
	return bin, ""
}

// Replay runs the harness natively on the model; returns true if the same failure shows.
func (r *Replayer) Replay(spec HarnessSpec, v *Violation, cexPath string) (bool, string) {
	bin, berr := r.build(spec.Pkg)
	if berr != "" {
		return false, berr
	}
	wd := filepath.Join(r.dir, "run")
	os.RemoveAll(wd)
	os.MkdirAll(wd, 0755)
	cmd := exec.Command("bash", "-c", "ulimit -v 4194304; exec timeout 120 "+bin+" -test.run '^TestVerifReplay$' -test.v -test.count=1")
	cmd.Dir = wd
	cmd.Env = append(os.Environ(), "VERIF_MODEL="+cexPath, "VERIF_HARNESS="+spec.Fn, "VERIF_TMP="+wd, "VERIF_TIER="+os.Getenv("VERIF_TIER_EFFECTIVE"))
	out, _ := cmd.CombinedOutput()
	s := string(out)
	if strings.Contains(s, "VERIF-ASSUME-FAIL") {
		return false, s
	}
	switch v.Kind {
	case "assert":
		return strings.Contains(s, "VERIF-ASSERT-FAIL "+v.Label+"\n") || strings.Contains(s, "VERIF-ASSERT-FAIL "+v.Label+" "), s
	case "panic":
		return strings.Contains(s, "panic:") || strings.Contains(s, "panic serving") || strings.Contains(s, "fatal error:") || strings.Contains(s, "VERIF-ALLOC-EXCEEDED"), s
	}
	return false, s
}

// ReplayWitness runs the harness natively on a satisfying assignment of a completed symbolic
// path: it must run to the end with every assumption and assertion holding.
func (r *Replayer) ReplayWitness(spec HarnessSpec, path string) (bool, string) {
	bin, berr := r.build(spec.Pkg)
	if berr != "" {
		return false, berr
	}
	wd := filepath.Join(r.dir, "run")
	os.RemoveAll(wd)
	os.MkdirAll(wd, 0755)
	cmd := exec.Command("bash", "-c", "ulimit -v 4194304; exec timeout 120 "+bin+" -test.run '^TestVerifReplay$' -test.v -test.count=1")
	cmd.Dir = wd
	cmd.Env = append(os.Environ(), "VERIF_MODEL="+path, "VERIF_HARNESS="+spec.Fn, "VERIF_TMP="+wd, "VERIF_TIER="+os.Getenv("VERIF_TIER_EFFECTIVE"))
	out, _ := cmd.CombinedOutput()
	s := string(out)
	ok := strings.Contains(s, "VERIF-REPLAY-DONE") && !strings.Contains(s, "VERIF-ASSERT-FAIL") && !strings.Contains(s, "VERIF-ASSUME-FAIL") && !strings.Contains(s, "panic:")
	return ok, s
}

// replayFile: `vengine replay <PROP> <cex.json>` for MANIFEST.replay_cmd_template.
func replayFile(prop, cex string) int {
	b, err := os.ReadFile(cex)
	if err != nil {
		fatal(2, "%v", err)
	}
	var v Violation
	if err := json.Unmarshal(b, &v); err != nil {
		fatal(2, "%v", err)
	}
	specs := loadSpecs()
	ps := specs[prop]
	var spec *HarnessSpec
	if ps != nil {
		for i := range ps.Harnesses {
			if ps.Harnesses[i].Fn == v.Harness {
				spec = &ps.Harnesses[i]
			}
		}
	}
	if spec == nil {
		fatal(2, "harness %s not in specs for %s", v.Harness, prop)
	}
	ld := loadProgram(spec.Pkg == "cmd")
	rp := NewReplayer(ld)
	defer rp.Cleanup()
	ok, out := rp.Replay(*spec, &v, cex)
	fmt.Println(out)
	if ok {
		fmt.Printf("VIOLATION property=%s replay=%s\n", prop, cex)
		return 1
	}
	fmt.Println("not reproduced")
	return 0
}

// scratchBase: evidence and counterexamples go to /verif, except for experiments on scratch
// copies of the repository (VERIF_REPO set), which must not clobber the real evidence.
func scratchBase() string {
	if os.Getenv("VERIF_REPO") != "" {
		return filepath.Join("/var/tmp/verif-scratch", filepath.Base(repoDir))
	}
	return verifDir
}
