package main

// Long-lived solver processes spoken to over pipes (one per worker).

import (
	"bufio"
	"context"
	"fmt"
	"io"
	"math/big"
	"os"
	"os/exec"
	"strings"
	"time"
)

type SolverKind string

const (
	SZ3New SolverKind = "z3-new"
	SZ3    SolverKind = "z3"
	SCVC5  SolverKind = "cvc5"
)

type Solver struct {
	kind    SolverKind
	cmd     *exec.Cmd
	in      io.WriteCloser
	out     *bufio.Reader
	timeout int // ms per check
	// statistics
	NSat, NUnsat, NUnknown int
	Time                   time.Duration
	trace                  io.Writer
	Buckets                [5]int
	BucketT                [5]time.Duration
	dead                   bool
	curTimeout             int
	pathLog                strings.Builder // everything asserted/defined at path level since BeginPath
	NOneShot               int
}

func StartSolver(kind SolverKind, timeoutMs int) (*Solver, error) {
	var cmd *exec.Cmd
	switch kind {
	case SZ3New:
		cmd = exec.Command("z3-new", "-in", "-smt2")
	case SZ3:
		cmd = exec.Command("z3", "-in", "-smt2")
	case SCVC5:
		cmd = exec.Command("cvc5", "--incremental", "--lang=smt2", "--produce-models", fmt.Sprintf("--tlimit-per=%d", timeoutMs))
	}
	in, err := cmd.StdinPipe()
	if err != nil {
		return nil, err
	}
	out, err := cmd.StdoutPipe()
	if err != nil {
		return nil, err
	}
	cmd.Stderr = cmd.Stdout
	if err := cmd.Start(); err != nil {
		return nil, err
	}
	s := &Solver{kind: kind, cmd: cmd, in: in, out: bufio.NewReaderSize(out, 1<<20), timeout: timeoutMs}
	if p := os.Getenv("VERIF_SMT_TRACE"); p != "" {
		f, _ := os.OpenFile(fmt.Sprintf("%s.%d", p, cmd.Process.Pid), os.O_CREATE|os.O_WRONLY|os.O_TRUNC, 0644)
		s.trace = f
	}
	s.init()
	return s, nil
}

func (s *Solver) init() {
	if s.kind == SCVC5 {
		s.send("(set-logic ALL)\n")
	} else {
		s.send(fmt.Sprintf("(set-option :timeout %d)\n", s.timeout))
		s.curTimeout = s.timeout
	}
	s.send("(set-option :produce-models true)\n")
}

func (s *Solver) send(txt string) {
	if s.trace != nil {
		io.WriteString(s.trace, txt)
	}
	if _, err := io.WriteString(s.in, txt); err != nil {
		s.dead = true
	}
}

func (s *Solver) Close() {
	if s.cmd != nil {
		s.in.Close()
		done := make(chan struct{})
		go func() { s.cmd.Wait(); close(done) }()
		select {
		case <-done:
		case <-time.After(2 * time.Second):
			s.cmd.Process.Kill()
		}
	}
}

// Reset clears all assertions and declarations.
func (s *Solver) Reset() {
	s.send("(reset)\n")
	s.init()
}

func (s *Solver) Push() { s.send("(push 1)\n") }

func (s *Solver) BeginPath() {
	s.pathLog.Reset()
	s.send("(push 1)\n")
}
func (s *Solver) EndPath() {
	s.send("(pop 1)\n")
	s.pathLog.Reset()
}
func (s *Solver) Pop()  { s.send("(pop 1)\n") }

func (s *Solver) Assert(defs, expr string) {
	s.send(defs)
	s.send("(assert " + expr + ")\n")
	s.pathLog.WriteString(defs)
	s.pathLog.WriteString("(assert " + expr + ")\n")
}

// OneShot solves pathLog ∧ assume in a fresh non-incremental solver process (z3's
// non-incremental pipeline preprocesses much more aggressively than its push/pop core).
func (s *Solver) OneShot(assume []string, wantModel bool, vars []string, timeoutMs int) (SatResult, map[string]string, string) {
	return s.OneShotWith(s.kind, assume, wantModel, vars, timeoutMs)
}

func (s *Solver) OneShotWith(kind SolverKind, assume []string, wantModel bool, vars []string, timeoutMs int) (SatResult, map[string]string, string) {
	s.NOneShot++
	var sb strings.Builder
	sb.WriteString("(set-option :produce-models true)\n")
	sb.WriteString(s.pathLog.String())
	for _, a := range assume {
		sb.WriteString("(assert " + a + ")\n")
	}
	sb.WriteString("(check-sat)\n")
	if wantModel && len(vars) > 0 {
		for i := 0; i < len(vars); i += 50 {
			j := i + 50
			if j > len(vars) {
				j = len(vars)
			}
			sb.WriteString("(get-value (" + strings.Join(vars[i:j], " ") + "))\n")
		}
	}
	bin := "z3-new"
	if kind == SZ3 {
		bin = "z3"
	}
	var cmd *exec.Cmd
	if kind == SCVC5 {
		cmd = exec.Command("cvc5", "--lang=smt2", "--produce-models", fmt.Sprintf("--tlimit=%d", timeoutMs))
		sb2 := "(set-logic ALL)\n" + sb.String()
		cmd.Stdin = strings.NewReader(sb2)
	} else {
		cmd = exec.Command(bin, "-in", "-smt2", fmt.Sprintf("-t:%d", timeoutMs))
		cmd.Stdin = strings.NewReader(sb.String())
	}
	t0 := time.Now()
	out, _ := cmd.CombinedOutput()
	s.Time += time.Since(t0)
	txt := string(out)
	first := txt
	rest := ""
	if i := strings.Index(txt, "\n"); i >= 0 {
		first, rest = txt[:i], txt[i+1:]
	}
	first = strings.TrimSpace(first)
	switch first {
	case "unsat":
		s.NUnsat++
		return RUnsat, nil, ""
	case "sat":
		s.NSat++
		model := map[string]string{}
		if wantModel {
			parseGetValue(rest, model)
		}
		return RSat, model, ""
	}
	s.NUnknown++
	if d := os.Getenv("VERIF_DUMP_UNKNOWN"); d != "" {
		dumpN++
		os.WriteFile(fmt.Sprintf("%s/unk-%d-%d.smt2", d, os.Getpid(), dumpN), []byte(sb.String()), 0644)
	}
	if strings.HasPrefix(first, "(error") {
		return RUnknown, nil, first
	}
	return RUnknown, nil, ""
}

var dumpN int

// OneShotRace runs the same non-incremental query on z3 5.1 and z3 4.8.12 side by side and takes
// the first definite answer (sat/unsat); the other process is killed.  Used for obligations the
// incremental solver left undecided, so that one hard query costs the time of the faster
// search instead of the sum of all budgets.
func (s *Solver) OneShotRace(assume []string, wantModel bool, vars []string, timeoutMs int) (SatResult, map[string]string, string) {
	s.NOneShot++
	var sb strings.Builder
	sb.WriteString("(set-option :produce-models true)\n")
	sb.WriteString(s.pathLog.String())
	for _, a := range assume {
		sb.WriteString("(assert " + a + ")\n")
	}
	sb.WriteString("(check-sat)\n")
	if wantModel && len(vars) > 0 {
		for i := 0; i < len(vars); i += 50 {
			j := i + 50
			if j > len(vars) {
				j = len(vars)
			}
			sb.WriteString("(get-value (" + strings.Join(vars[i:j], " ") + "))\n")
		}
	}
	script := sb.String()
	if v := os.Getenv("VERIF_RACE_MS"); v != "" { // experiments only: shrink the budget to collect hard queries
		fmt.Sscanf(v, "%d", &timeoutMs)
	}
	type ans struct {
		r     SatResult
		model map[string]string
		errs  string
	}
	// cvc5 is a third racer whose answer is used only when it is "unsat" (no model has to be
	// read back from it); it decides some of the mixed Int/FP queries in 0.1 s that cost z3
	// 10-45 s, which made one C02.Step obligation time out on a loaded machine
	bins := []string{"z3-new", "z3", "cvc5"}
	ctx, cancel := context.WithCancel(context.Background())
	defer cancel()
	ch := make(chan ans, len(bins))
	t0 := time.Now()
	for _, bin := range bins {
		go func(bin string) {
			cmd := exec.CommandContext(ctx, bin, "-in", "-smt2", fmt.Sprintf("-t:%d", timeoutMs))
			cmd.Stdin = strings.NewReader(script)
			if bin == "cvc5" {
				cmd = exec.CommandContext(ctx, "cvc5", "--lang=smt2", fmt.Sprintf("--tlimit=%d", timeoutMs))
				cmd.Stdin = strings.NewReader("(set-logic ALL)\n" + script)
			}
			out, _ := cmd.CombinedOutput()
			if bin == "cvc5" {
				if strings.HasPrefix(strings.TrimSpace(string(out)), "unsat") {
					ch <- ans{RUnsat, nil, ""}
				} else {
					ch <- ans{RUnknown, nil, ""}
				}
				return
			}
			txt := string(out)
			first, rest := txt, ""
			if i := strings.Index(txt, "\n"); i >= 0 {
				first, rest = txt[:i], txt[i+1:]
			}
			first = strings.TrimSpace(first)
			switch first {
			case "unsat":
				ch <- ans{RUnsat, nil, ""}
			case "sat":
				model := map[string]string{}
				if wantModel {
					parseGetValue(rest, model)
				}
				ch <- ans{RSat, model, ""}
			default:
				if strings.HasPrefix(first, "(error") && ctx.Err() == nil {
					ch <- ans{RUnknown, nil, first}
				} else {
					ch <- ans{RUnknown, nil, ""}
				}
			}
		}(bin)
	}
	res := ans{RUnknown, nil, ""}
	for range bins {
		a := <-ch
		if a.r != RUnknown {
			res = a
			break
		}
		if a.errs != "" && res.errs == "" {
			res.errs = a.errs
		}
	}
	cancel()
	s.Time += time.Since(t0)
	switch res.r {
	case RUnsat:
		s.NUnsat++
		res.errs = ""
	case RSat:
		s.NSat++
		res.errs = ""
	default:
		s.NUnknown++
		if d := os.Getenv("VERIF_DUMP_UNKNOWN"); d != "" {
			dumpN++
			os.WriteFile(fmt.Sprintf("%s/unk-%d-%d.smt2", d, os.Getpid(), dumpN), []byte(script), 0644)
		}
	}
	return res.r, res.model, res.errs
}

type SatResult int

const (
	RUnsat SatResult = iota
	RSat
	RUnknown
)

func (r SatResult) String() string { return [...]string{"unsat", "sat", "unknown"}[r] }

// Check runs check-sat with extra (already defined) assumption expressions inside a push/pop.
// If wantModel and the result is sat, values of the given variable names are returned.
// SetTimeout changes the per-query timeout (z3 only; cvc5 keeps its command-line limit).
func (s *Solver) SetTimeout(ms int) {
	if s.kind == SCVC5 || ms == s.curTimeout {
		return
	}
	s.curTimeout = ms
	s.send(fmt.Sprintf("(set-option :timeout %d)\n", ms))
}

func (s *Solver) Check(defs string, assume []string, wantModel bool, vars []string) (SatResult, map[string]string, string) {
	t0 := time.Now()
	defer func() {
		d := time.Since(t0)
		s.Time += d
		b := 0
		switch {
		case d < 10*time.Millisecond:
			b = 0
		case d < 100*time.Millisecond:
			b = 1
		case d < time.Second:
			b = 2
		case d < 10*time.Second:
			b = 3
		default:
			b = 4
		}
		s.Buckets[b]++
		s.BucketT[b] += d
	}()
	if s.dead {
		s.NUnknown++
		return RUnknown, nil, "solver dead"
	}
	s.pathLog.WriteString(defs)
	var sb strings.Builder
	sb.WriteString(defs)
	sb.WriteString("(push 1)\n")
	for _, a := range assume {
		sb.WriteString("(assert " + a + ")\n")
	}
	sb.WriteString("(check-sat)\n")
	s.send(sb.String())
	res, errs := s.readAnswer()
	var model map[string]string
	if res == RSat && wantModel && len(vars) > 0 {
		model = map[string]string{}
		// ask in chunks
		for i := 0; i < len(vars); i += 50 {
			j := i + 50
			if j > len(vars) {
				j = len(vars)
			}
			s.send("(get-value (" + strings.Join(vars[i:j], " ") + "))\n(echo \"@@done\")\n")
			txt := s.readUntilDone()
			parseGetValue(txt, model)
		}
	}
	s.send("(pop 1)\n")
	if errs != "" {
		s.NUnknown++
		return RUnknown, nil, errs
	}
	switch res {
	case RSat:
		s.NSat++
	case RUnsat:
		s.NUnsat++
	default:
		s.NUnknown++
	}
	return res, model, ""
}

func (s *Solver) readAnswer() (SatResult, string) {
	var errs []string
	for {
		line, err := s.out.ReadString('\n')
		if err != nil {
			s.dead = true
			return RUnknown, "solver died: " + err.Error() + " " + strings.Join(errs, ";")
		}
		line = strings.TrimSpace(line)
		switch {
		case line == "sat":
			return RSat, strings.Join(errs, ";")
		case line == "unsat":
			return RUnsat, strings.Join(errs, ";")
		case line == "unknown" || line == "timeout":
			return RUnknown, strings.Join(errs, ";")
		case strings.HasPrefix(line, "(error"):
			errs = append(errs, line)
		case line == "":
		default:
			// multi-line error continuation or unexpected output
			errs = append(errs, "unexpected: "+line)
		}
	}
}

func (s *Solver) readUntilDone() string {
	var sb strings.Builder
	for {
		line, err := s.out.ReadString('\n')
		if err != nil {
			s.dead = true
			return sb.String()
		}
		if strings.Contains(line, "@@done") {
			return sb.String()
		}
		sb.WriteString(line)
	}
}

// parseGetValue parses "((name value) (name value) ...)" into the map (raw value text).
func parseGetValue(txt string, out map[string]string) {
	toks := tokenize(txt)
	// structure: ( ( name value ) ... )
	i := 0
	var parse func() interface{}
	parse = func() interface{} {
		if i >= len(toks) {
			return nil
		}
		t := toks[i]
		i++
		if t == "(" {
			var lst []interface{}
			for i < len(toks) && toks[i] != ")" {
				lst = append(lst, parse())
			}
			i++
			return lst
		}
		return t
	}
	for i < len(toks) {
		top := parse()
		lst, ok := top.([]interface{})
		if !ok {
			continue
		}
		for _, pair := range lst {
			p, ok := pair.([]interface{})
			if !ok || len(p) != 2 {
				continue
			}
			name, ok := p[0].(string)
			if !ok {
				continue
			}
			out[name] = sexprString(p[1])
		}
	}
}

func sexprString(x interface{}) string {
	switch v := x.(type) {
	case string:
		return v
	case []interface{}:
		parts := make([]string, len(v))
		for i, e := range v {
			parts[i] = sexprString(e)
		}
		return "(" + strings.Join(parts, " ") + ")"
	}
	return ""
}

func tokenize(s string) []string {
	var toks []string
	i := 0
	for i < len(s) {
		c := s[i]
		switch {
		case c == '(' || c == ')':
			toks = append(toks, string(c))
			i++
		case c == ' ' || c == '\n' || c == '\t' || c == '\r':
			i++
		case c == '|':
			j := i + 1
			for j < len(s) && s[j] != '|' {
				j++
			}
			toks = append(toks, s[i:j+1])
			i = j + 1
		case c == '"':
			j := i + 1
			for j < len(s) && s[j] != '"' {
				j++
			}
			toks = append(toks, s[i:j+1])
			i = j + 1
		default:
			j := i
			for j < len(s) && !strings.ContainsRune("() \n\t\r", rune(s[j])) {
				j++
			}
			toks = append(toks, s[i:j])
			i = j
		}
	}
	return toks
}

// parseSMTInt parses an Int or BitVec model value into a big.Int (unsigned for bit-vectors).
func parseSMTInt(v string) (*big.Int, bool) {
	v = strings.TrimSpace(v)
	switch {
	case strings.HasPrefix(v, "#x"):
		n, ok := new(big.Int).SetString(v[2:], 16)
		return n, ok
	case strings.HasPrefix(v, "#b"):
		n, ok := new(big.Int).SetString(v[2:], 2)
		return n, ok
	case strings.HasPrefix(v, "(- "):
		n, ok := new(big.Int).SetString(strings.TrimSuffix(strings.TrimPrefix(v, "(- "), ")"), 10)
		if ok {
			n.Neg(n)
		}
		return n, ok
	case strings.HasPrefix(v, "(_ bv"):
		f := strings.Fields(strings.TrimPrefix(v, "(_ bv"))
		n, ok := new(big.Int).SetString(f[0], 10)
		return n, ok
	case v == "true":
		return big.NewInt(1), true
	case v == "false":
		return big.NewInt(0), true
	}
	n, ok := new(big.Int).SetString(v, 10)
	return n, ok
}

// parseSMTFloatBits parses an FP model value into its IEEE bit pattern.
func parseSMTFloatBits(v string, w int) (*big.Int, bool) {
	v = strings.TrimSpace(v)
	eb, sb := 11, 53
	if w == 32 {
		eb, sb = 8, 24
	}
	mant := sb - 1
	expAll := new(big.Int).Lsh(new(big.Int).Sub(pow2(eb), bigOne), uint(mant))
	signBit := pow2(w - 1)
	switch {
	case strings.HasPrefix(v, "(fp "):
		f := strings.Fields(strings.TrimSuffix(strings.TrimPrefix(v, "(fp "), ")"))
		if len(f) != 3 {
			return nil, false
		}
		s, ok1 := parseSMTInt(f[0])
		e, ok2 := parseSMTInt(f[1])
		m, ok3 := parseSMTInt(f[2])
		if !ok1 || !ok2 || !ok3 {
			return nil, false
		}
		r := new(big.Int).Lsh(s, uint(w-1))
		r.Or(r, new(big.Int).Lsh(e, uint(mant)))
		r.Or(r, m)
		return r, true
	case strings.HasPrefix(v, "(_ +zero"):
		return big.NewInt(0), true
	case strings.HasPrefix(v, "(_ -zero"):
		return new(big.Int).Set(signBit), true
	case strings.HasPrefix(v, "(_ +oo"):
		return new(big.Int).Set(expAll), true
	case strings.HasPrefix(v, "(_ -oo"):
		return new(big.Int).Or(expAll, signBit), true
	case strings.HasPrefix(v, "(_ NaN"):
		return new(big.Int).Or(expAll, pow2(mant-1)), true
	}
	return nil, false
}
