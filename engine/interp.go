package main

// Symbolic interpreter for go/ssa.

import (
	"fmt"
	"go/constant"
	"go/token"
	"go/types"
	"math/big"
	"sort"
	"strings"

	"golang.org/x/tools/go/ssa"
)

type Frame struct {
	fn     *ssa.Function
	env    map[ssa.Value]Value
	defers []func()
	serial int
	result Value
	caller *Frame
	pos    token.Pos
}

// sentinels thrown with panic()
type pathEnd struct {
	kind string // "done", "infeasible", "panic", "unsupported", "unwind", "steps"
	msg  string
}
type mergeAbort struct{ why string }

type mergeCtx struct {
	baseOwner int
	dec       []int
	dpos      int
	guard     *Term
	panics    []guardedPanic
}

type guardedPanic struct {
	cond *Term
	what string
}

func (m *Machine) curOwner() int {
	if m.fr == nil {
		return 0
	}
	return m.fr.serial
}

func (m *Machine) unsupported(msg string) {
	if m.merge != nil {
		panic(mergeAbort{"unsupported: " + msg})
	}
	where := ""
	if m.fr != nil {
		where = " in " + m.fr.fn.String() + " @" + m.prog.Fset.Position(m.fr.pos).String()
		n := 0
		for f := m.fr.caller; f != nil && n < 6; f = f.caller {
			where += " <- " + f.fn.Name()
			n++
		}
	}
	panic(pathEnd{"unsupported", msg + where})
}

func (m *Machine) position() string {
	if m.fr == nil {
		return ""
	}
	// find innermost frame with valid pos
	for f := m.fr; f != nil; f = f.caller {
		if f.pos.IsValid() {
			p := m.prog.Fset.Position(f.pos)
			fn := p.Filename
			if i := strings.LastIndex(fn, "/"); i >= 0 {
				fn = fn[i+1:]
			}
			return fmt.Sprintf("%s:%d (%s)", fn, p.Line, f.fn.Name())
		}
	}
	return m.fr.fn.Name()
}

// ---------------------------------------------------------------- function execution

func (m *Machine) callFunction(fn *ssa.Function, args []Value) Value {
	if v, ok := m.intercept(fn, args); ok {
		return v
	}
	if fn.Name() == "init" && fn.Pkg != nil && fn.Pkg.Pkg.Path() != libPkg && fn.Pkg.Pkg.Path() != cmdPkg {
		return nil // package initialisers of dependencies are not executed (their globals are modelled on demand)
	}
	if fn.Blocks == nil && fn.Pkg != nil {
		fn.Pkg.Build()
	}
	if fn.Blocks == nil {
		m.unsupported("call to function without body: " + fn.String())
	}
	if m.merge == nil && m.canMerge(fn) && anySymbolic(args) {
		if v, ok := m.mergeCall(fn, args); ok {
			return v
		}
	}
	return m.runFunction(fn, args, nil)
}

func anySymbolic(args []Value) bool {
	for _, a := range args {
		switch x := a.(type) {
		case *Term:
			if !x.IsConst() {
				return true
			}
		case Pointer:
			return true // may point to symbolic data
		case *StructV:
			if anySymbolic(x.f) {
				return true
			}
		}
	}
	return false
}

func (m *Machine) runFunction(fn *ssa.Function, args []Value, binds []Value) Value {
	m.depth++
	if m.depth > 200 {
		m.unsupported("call depth exceeded")
	}
	m.frameSerial++
	fr := &Frame{fn: fn, env: make(map[ssa.Value]Value, 32), serial: m.frameSerial, caller: m.fr}
	m.fns[fn] = true
	for i, p := range fn.Params {
		fr.env[p] = args[i]
	}
	for i, fv := range fn.FreeVars {
		fr.env[fv] = binds[i]
	}
	saved := m.fr
	m.fr = fr
	defer func() { m.fr = saved; m.depth-- }()
	m.runBlocks(fr)
	return fr.result
}

func (m *Machine) runBlocks(fr *Frame) {
	var prev *ssa.BasicBlock
	block := fr.fn.Blocks[0]
	for {
		var next *ssa.BasicBlock
		for _, instr := range block.Instrs {
			m.steps++
			if m.steps > m.maxSteps {
				panic(pathEnd{"steps", "step budget exceeded (possible non-termination) at " + m.position()})
			}
			if p := instr.Pos(); p.IsValid() {
				fr.pos = p
			}
			switch in := instr.(type) {
			case *ssa.Phi:
				for i, pred := range block.Preds {
					if pred == prev {
						fr.env[in] = m.eval(fr, in.Edges[i])
						break
					}
				}
			case *ssa.Jump:
				next = block.Succs[0]
			case *ssa.If:
				c := m.eval(fr, in.Cond).(*Term)
				if m.branch(c) {
					next = block.Succs[0]
				} else {
					next = block.Succs[1]
				}
			case *ssa.Return:
				switch len(in.Results) {
				case 0:
					fr.result = nil
				case 1:
					fr.result = m.eval(fr, in.Results[0])
				default:
					tv := make(TupleV, len(in.Results))
					for i, r := range in.Results {
						tv[i] = m.eval(fr, r)
					}
					fr.result = tv
				}
				return
			case *ssa.Panic:
				x := m.eval(fr, in.X)
				m.goPanic("explicit panic: " + m.describe(x))
			case *ssa.RunDefers:
				m.runDefers(fr)
			default:
				m.exec(fr, instr)
			}
		}
		if next == nil {
			m.unsupported("block without terminator")
		}
		prev, block = block, next
	}
}

func (m *Machine) runDefers(fr *Frame) {
	for len(fr.defers) > 0 {
		d := fr.defers[len(fr.defers)-1]
		fr.defers = fr.defers[:len(fr.defers)-1]
		d()
	}
}

func (m *Machine) describe(v Value) string {
	switch x := v.(type) {
	case IfaceV:
		if x.t == nil {
			return "nil"
		}
		if s, ok := x.v.(StringV); ok {
			if c, ok := strConcrete(s); ok {
				return c
			}
		}
		if e, ok := x.v.(*ErrObj); ok {
			return e.msg
		}
		return x.t.String()
	case StringV:
		c, _ := strConcrete(x)
		return c
	}
	return fmt.Sprintf("%T", v)
}

// ---------------------------------------------------------------- operand evaluation

func (m *Machine) eval(fr *Frame, v ssa.Value) Value {
	switch x := v.(type) {
	case *ssa.Const:
		return m.constValue(x)
	case *ssa.Global:
		return Pointer{loc: m.globalLoc(x)}
	case *ssa.Function:
		return &FuncV{fn: x}
	case *ssa.Builtin:
		return &FuncV{intr: "builtin:" + x.Name()}
	}
	if val, ok := fr.env[v]; ok {
		return val
	}
	m.unsupported(fmt.Sprintf("eval: no value for %T %s", v, v.Name()))
	return nil
}

func (m *Machine) constValue(c *ssa.Const) Value {
	t := c.Type()
	if c.Value == nil {
		return m.zero(t)
	}
	switch u := t.Underlying().(type) {
	case *types.Basic:
		switch {
		case u.Info()&types.IsString != 0:
			return m.strConst(constant.StringVal(c.Value))
		case u.Info()&types.IsBoolean != 0:
			return m.ctx.Bool(constant.BoolVal(c.Value))
		case u.Info()&types.IsInteger != 0:
			s, _ := sortOfBasic(u)
			bi, ok := new(big.Int).SetString(constant.ToInt(c.Value).ExactString(), 10)
			if !ok {
				m.unsupported("int const " + c.Value.ExactString())
			}
			return m.ctx.Int(s, bi)
		case u.Info()&types.IsFloat != 0:
			f, _ := constant.Float64Val(c.Value)
			if u.Kind() == types.Float32 {
				f32, _ := constant.Float32Val(c.Value)
				return m.ctx.F32(f32)
			}
			return m.ctx.F64(f)
		}
	}
	m.unsupported("const of type " + t.String())
	return nil
}

func (m *Machine) globalLoc(g *ssa.Global) Loc {
	if l, ok := m.globals[g]; ok {
		return l
	}
	elem := g.Type().(*types.Pointer).Elem()
	l := m.newLocOwned(elem, 0)
	m.globals[g] = l
	m.initExternalGlobal(g, l)
	return l
}

func (m *Machine) newLocOwned(t types.Type, owner int) Loc {
	saved := m.fr
	m.fr = nil
	l := m.newLoc(t)
	m.fr = saved
	return l
}

// ---------------------------------------------------------------- instructions

func (m *Machine) exec(fr *Frame, instr ssa.Instruction) {
	switch in := instr.(type) {
	case *ssa.DebugRef:
	case *ssa.Alloc:
		fr.env[in] = Pointer{loc: m.newLoc(in.Type().(*types.Pointer).Elem())}
	case *ssa.BinOp:
		fr.env[in] = m.binop(in.Op, m.eval(fr, in.X), m.eval(fr, in.Y), in.X.Type())
	case *ssa.UnOp:
		fr.env[in] = m.unop(in, m.eval(fr, in.X))
	case *ssa.Call:
		fr.env[in] = m.doCall(fr, &in.Call)
	case *ssa.Defer:
		m.doDefer(fr, in)
	case *ssa.ChangeType:
		fr.env[in] = m.eval(fr, in.X)
	case *ssa.ChangeInterface:
		fr.env[in] = m.eval(fr, in.X)
	case *ssa.MakeInterface:
		fr.env[in] = IfaceV{t: in.X.Type(), v: m.eval(fr, in.X)}
	case *ssa.Convert:
		fr.env[in] = m.convert(m.eval(fr, in.X), in.X.Type(), in.Type())
	case *ssa.Extract:
		fr.env[in] = m.eval(fr, in.Tuple).(TupleV)[in.Index]
	case *ssa.Field:
		fr.env[in] = m.eval(fr, in.X).(*StructV).f[in.Field]
	case *ssa.FieldAddr:
		p := m.eval(fr, in.X).(Pointer)
		if p.loc == nil {
			m.goPanic("nil pointer dereference (field " + fieldName(in) + ")")
		}
		sl, ok := p.loc.(*StructLoc)
		if !ok {
			m.unsupported(fmt.Sprintf("FieldAddr on %T", p.loc))
		}
		fr.env[in] = Pointer{loc: sl.fields[in.Field]}
	case *ssa.Index:
		fr.env[in] = m.index(m.eval(fr, in.X), m.eval(fr, in.Index).(*Term))
	case *ssa.IndexAddr:
		fr.env[in] = m.indexAddr(m.eval(fr, in.X), m.eval(fr, in.Index).(*Term))
	case *ssa.Slice:
		fr.env[in] = m.sliceOp(fr, in)
	case *ssa.MakeSlice:
		fr.env[in] = m.makeSlice(in.Type().Underlying().(*types.Slice).Elem(), m.eval(fr, in.Len).(*Term), m.eval(fr, in.Cap).(*Term))
	case *ssa.MakeClosure:
		binds := make([]Value, len(in.Bindings))
		for i, b := range in.Bindings {
			binds[i] = m.eval(fr, b)
		}
		fr.env[in] = &FuncV{fn: in.Fn.(*ssa.Function), binds: binds}
	case *ssa.MakeMap:
		fr.env[in] = &MapV{m: map[string]Value{}, kv: map[string]Value{}}
	case *ssa.MapUpdate:
		mp := m.eval(fr, in.Map).(*MapV)
		if mp == nil {
			m.goPanic("assignment to entry in nil map")
		}
		if m.merge != nil {
			panic(mergeAbort{"map update"})
		}
		k := m.eval(fr, in.Key)
		ks := m.mapKey(k)
		if _, ok := mp.m[ks]; !ok {
			mp.keys = append(mp.keys, ks)
		}
		mp.m[ks] = m.eval(fr, in.Value)
		mp.kv[ks] = k
	case *ssa.Lookup:
		fr.env[in] = m.lookup(in, m.eval(fr, in.X), m.eval(fr, in.Index))
	case *ssa.Store:
		p := m.eval(fr, in.Addr).(Pointer)
		if p.loc == nil {
			m.goPanic("nil pointer dereference (store)")
		}
		m.store(p.loc, m.eval(fr, in.Val))
	case *ssa.TypeAssert:
		fr.env[in] = m.typeAssert(in, m.eval(fr, in.X))
	case *ssa.Range:
		fr.env[in] = m.rangeInit(m.eval(fr, in.X))
	case *ssa.Next:
		fr.env[in] = m.rangeNext(in, m.eval(fr, in.Iter))
	case *ssa.SliceToArrayPointer:
		s := m.eval(fr, in.X).(SliceV)
		n := int(in.Type().(*types.Pointer).Elem().Underlying().(*types.Array).Len())
		if s.len < n {
			m.goPanic("slice to array pointer: length too short")
		}
		if s.off == 0 && len(s.arr.elems) == n {
			fr.env[in] = Pointer{loc: s.arr}
		} else {
			fr.env[in] = Pointer{loc: &ArrayLoc{elems: s.arr.elems[s.off : s.off+n], elemT: s.arr.elemT, owner: s.arr.owner}}
		}
	case *ssa.Go:
		m.unsupported("go statement")
	default:
		m.unsupported(fmt.Sprintf("instruction %T", instr))
	}
}

func fieldName(in *ssa.FieldAddr) string {
	st := in.X.Type().(*types.Pointer).Elem().Underlying().(*types.Struct)
	return st.Field(in.Field).Name()
}

func (m *Machine) mapKey(k Value) string {
	switch x := k.(type) {
	case StringV:
		s, ok := strConcrete(x)
		if !ok {
			m.unsupported("symbolic map key")
		}
		return "s:" + s
	case *Term:
		if !x.IsConst() {
			m.unsupported("symbolic map key")
		}
		return "i:" + x.V.String()
	case IfaceV:
		return "if:" + fmt.Sprint(x.t) + ":" + m.mapKey(x.v)
	}
	m.unsupported(fmt.Sprintf("map key %T", k))
	return ""
}

func (m *Machine) lookup(in *ssa.Lookup, x, idx Value) Value {
	switch c := x.(type) {
	case StringV:
		i := m.concreteIndex(idx.(*Term), len(c.b), "string index")
		return c.b[i]
	case *MapV:
		var v Value
		ok := false
		if c != nil {
			v, ok = c.m[m.mapKey(idx)]
		}
		if !ok {
			v = m.zero(in.X.Type().Underlying().(*types.Map).Elem())
		}
		if in.CommaOk {
			return TupleV{v, m.ctx.Bool(ok)}
		}
		return v
	}
	m.unsupported(fmt.Sprintf("lookup on %T", x))
	return nil
}

type rangeIter struct {
	str  *StringV
	mp   *MapV
	pos  int
	keys []string
}

func (m *Machine) rangeInit(x Value) Value {
	switch c := x.(type) {
	case StringV:
		return &rangeIter{str: &c}
	case *MapV:
		it := &rangeIter{mp: c}
		if c != nil {
			it.keys = append([]string(nil), c.keys...)
			sort.Strings(it.keys)
		}
		return it
	}
	m.unsupported("range over " + fmt.Sprintf("%T", x))
	return nil
}

func (m *Machine) rangeNext(in *ssa.Next, itv Value) Value {
	it := itv.(*rangeIter)
	if in.IsString {
		if it.pos >= len(it.str.b) {
			return TupleV{m.ctx.Bool(false), m.ctx.IntI(SI64, 0), m.ctx.IntI(SI32, 0)}
		}
		b := it.str.b[it.pos]
		bc, ok := b.ConstInt64()
		if !ok || bc >= 0x80 {
			// treat symbolic bytes as ASCII only when constrained; otherwise unsupported
			m.mayPanicNot(m.ctx.Lt(b, m.ctx.IntI(SU8, 0x80)), "non-ASCII byte in ranged string (unsupported)")
		}
		r := TupleV{m.ctx.Bool(true), m.ctx.IntI(SI64, int64(it.pos)), m.ctx.Conv(b, SI32)}
		it.pos++
		return r
	}
	if it.pos >= len(it.keys) {
		tt := in.Type().(*types.Tuple)
		return TupleV{m.ctx.Bool(false), m.zero(tt.At(1).Type()), m.zero(tt.At(2).Type())}
	}
	k := it.keys[it.pos]
	it.pos++
	return TupleV{m.ctx.Bool(true), it.mp.kv[k], it.mp.m[k]}
}

// mayPanicNot: helper for "unsupported unless cond holds" situations.
func (m *Machine) mayPanicNot(cond *Term, what string) {
	if cond.IsTrue() {
		return
	}
	m.unsupported(what)
}

func (m *Machine) typeAssert(in *ssa.TypeAssert, x Value) Value {
	iv := x.(IfaceV)
	ok := false
	var res Value
	if iv.t != nil {
		if types.IsInterface(in.AssertedType) {
			itf := in.AssertedType.Underlying().(*types.Interface)
			if _, isErr := iv.v.(*ErrObj); isErr {
				ok = itf.NumMethods() == 0 || (itf.NumMethods() == 1 && itf.Method(0).Name() == "Error")
			} else {
				ok = types.Implements(iv.t, itf)
			}
			if ok {
				res = iv
			}
		} else if types.Identical(iv.t, in.AssertedType) {
			ok = true
			res = iv.v
		}
	}
	if in.CommaOk {
		if !ok {
			res = m.zero(in.AssertedType)
		}
		return TupleV{res, m.ctx.Bool(ok)}
	}
	if !ok {
		m.goPanic("interface conversion failed: " + in.AssertedType.String())
	}
	return res
}

// concreteIndex resolves an index term to a concrete int in [0,n), forking if symbolic.
func (m *Machine) concreteIndex(idx *Term, n int, what string) int {
	if c, ok := idx.ConstInt64(); ok {
		if c < 0 || c >= int64(n) {
			m.goPanic(fmt.Sprintf("%s out of range [%d] with length %d", what, c, n))
		}
		return int(c)
	}
	s := idx.Sort
	oob := m.ctx.Not(m.ctx.And(m.ctx.Le(m.ctx.IntI(s, 0), idx), m.ctx.Lt(idx, m.ctx.IntI(s, int64(n)))))
	if s.Signed == false {
		oob = m.ctx.Not(m.ctx.Lt(idx, m.ctx.IntI(s, int64(n))))
	}
	m.mayPanic(oob, what+" out of range")
	return m.chooseInt(idx, 0, n-1)
}

func (m *Machine) index(x Value, idx *Term) Value {
	switch c := x.(type) {
	case *ArrayV:
		i := m.concreteIndex(idx, len(c.e), "index")
		return c.e[i]
	case StringV:
		i := m.concreteIndex(idx, len(c.b), "string index")
		return c.b[i]
	}
	m.unsupported(fmt.Sprintf("Index on %T", x))
	return nil
}

func (m *Machine) indexAddr(x Value, idx *Term) Value {
	switch c := x.(type) {
	case SliceV:
		i := m.concreteIndex(idx, c.len, "index")
		return Pointer{loc: c.arr.elems[c.off+i]}
	case Pointer:
		if c.loc == nil {
			m.goPanic("nil pointer dereference (index)")
		}
		al, ok := c.loc.(*ArrayLoc)
		if !ok {
			m.unsupported(fmt.Sprintf("IndexAddr on pointer to %T", c.loc))
		}
		i := m.concreteIndex(idx, len(al.elems), "index")
		return Pointer{loc: al.elems[i]}
	}
	m.unsupported(fmt.Sprintf("IndexAddr on %T", x))
	return nil
}

// concretize returns a concrete value for an int term expected to be in [lo,hi]; obligations
// about being outside that range must have been raised by the caller.
func (m *Machine) concretize(t *Term, lo, hi int) int {
	if c, ok := t.ConstInt64(); ok {
		return int(c)
	}
	return m.chooseInt(t, lo, hi)
}

func (m *Machine) sliceOp(fr *Frame, in *ssa.Slice) Value {
	x := m.eval(fr, in.X)
	var base *ArrayLoc
	var off, ln, cp int
	var str *StringV
	switch c := x.(type) {
	case SliceV:
		base, off, ln, cp = c.arr, c.off, c.len, c.cap
	case StringV:
		str = &c
		ln, cp = len(c.b), len(c.b)
	case Pointer:
		if c.loc == nil {
			m.goPanic("nil pointer dereference (slice)")
		}
		al, ok := c.loc.(*ArrayLoc)
		if !ok {
			m.unsupported(fmt.Sprintf("Slice on pointer to %T", c.loc))
		}
		base, off, ln, cp = al, 0, len(al.elems), len(al.elems)
	default:
		m.unsupported(fmt.Sprintf("Slice on %T", x))
	}
	lo, hi, mx := 0, ln, cp
	bound := cp
	if str != nil {
		bound = ln
	}
	get := func(v ssa.Value, def int) *Term {
		if v == nil {
			return m.ctx.IntI(SI64, int64(def))
		}
		t := m.eval(fr, v).(*Term)
		return m.ctx.Conv(t, SI64)
	}
	lt, ht, mt := get(in.Low, 0), get(in.High, ln), get(in.Max, cp)
	// bounds: 0 <= lo <= hi <= max <= cap
	bad := m.ctx.Or(m.ctx.Lt(lt, m.ctx.IntI(SI64, 0)), m.ctx.Or(m.ctx.Lt(ht, lt), m.ctx.Or(m.ctx.Lt(mt, ht), m.ctx.Lt(m.ctx.IntI(SI64, int64(bound)), mt))))
	m.mayPanic(bad, "slice bounds out of range")
	lo = m.concretize(lt, 0, bound)
	hi = m.concretize(ht, lo, bound)
	mx = m.concretize(mt, hi, bound)
	if str != nil {
		return StringV{b: str.b[lo:hi]}
	}
	if base == nil {
		return SliceV{}
	}
	return SliceV{arr: base, off: off + lo, len: hi - lo, cap: mx - lo}
}

const maxAllocElems = 1 << 16

func (m *Machine) makeSlice(elem types.Type, ln, cp *Term) Value {
	ln = m.ctx.Conv(ln, SI64)
	cp = m.ctx.Conv(cp, SI64)
	esz := m.sizes.Sizeof(elem)
	if esz == 0 {
		esz = 1
	}
	limit := int64(1) << 47 / esz // runtime maxAlloc / elemsize
	bad := m.ctx.Or(m.ctx.Lt(ln, m.ctx.IntI(SI64, 0)), m.ctx.Or(m.ctx.Lt(cp, ln), m.ctx.Lt(m.ctx.IntI(SI64, limit), cp)))
	m.mayPanic(bad, "makeslice: len out of range")
	// allocation budget obligation (harness-configurable)
	if m.allocLimit > 0 {
		big := m.ctx.Lt(m.ctx.IntI(SI64, m.allocLimit/esz), cp)
		m.mayPanic(big, "allocation exceeds budget")
	}
	c := m.concretize(cp, 0, maxAllocElems)
	n := m.concretize(ln, 0, c)
	if c > maxAllocElems {
		m.unsupported(fmt.Sprintf("makeslice of %d elements", c))
	}
	m.allocBytes += int64(c) * esz
	arr := m.newArray(elem, c)
	return SliceV{arr: arr, off: 0, len: n, cap: c}
}

// ---------------------------------------------------------------- unary / binary ops

func (m *Machine) unop(in *ssa.UnOp, x Value) Value {
	switch in.Op {
	case token.MUL:
		p, ok := x.(Pointer)
		if !ok {
			m.unsupported(fmt.Sprintf("deref of %T", x))
		}
		if p.loc == nil {
			m.goPanic("nil pointer dereference")
		}
		return m.load(p.loc)
	case token.SUB:
		t := x.(*Term)
		if t.Sort.K == KInt {
			return m.ctx.Neg(t)
		}
		return m.ctx.FNeg(t)
	case token.NOT:
		return m.ctx.Not(x.(*Term))
	case token.XOR:
		return m.ctx.BitNot(x.(*Term))
	}
	m.unsupported("unop " + in.Op.String())
	return nil
}

func (m *Machine) binop(op token.Token, x, y Value, xt types.Type) Value {
	switch a := x.(type) {
	case *Term:
		b, ok := y.(*Term)
		if !ok {
			m.unsupported(fmt.Sprintf("binop %s on term and %T", op, y))
		}
		return m.termBinop(op, a, b)
	case StringV:
		b := y.(StringV)
		switch op {
		case token.ADD:
			nb := make([]*Term, 0, len(a.b)+len(b.b))
			nb = append(nb, a.b...)
			nb = append(nb, b.b...)
			return StringV{b: nb}
		case token.EQL, token.NEQ:
			var r *Term
			if len(a.b) != len(b.b) {
				r = m.ctx.Bool(false)
			} else {
				r = m.ctx.Bool(true)
				for i := range a.b {
					r = m.ctx.And(r, m.ctx.Eq(a.b[i], b.b[i]))
				}
			}
			if op == token.NEQ {
				r = m.ctx.Not(r)
			}
			return r
		case token.LSS, token.LEQ, token.GTR, token.GEQ:
			as, ok1 := strConcrete(a)
			bs, ok2 := strConcrete(b)
			if ok1 && ok2 {
				var r bool
				switch op {
				case token.LSS:
					r = as < bs
				case token.LEQ:
					r = as <= bs
				case token.GTR:
					r = as > bs
				case token.GEQ:
					r = as >= bs
				}
				return m.ctx.Bool(r)
			}
		}
		m.unsupported("string binop " + op.String())
	}
	// equality on reference-like values
	if op == token.EQL || op == token.NEQ {
		eq := m.valuesEqual(x, y)
		if op == token.NEQ {
			return m.ctx.Not(eq)
		}
		return eq
	}
	m.unsupported(fmt.Sprintf("binop %s on %T", op, x))
	return nil
}

func (m *Machine) valuesEqual(x, y Value) *Term {
	if isNilValue(x) || isNilValue(y) {
		return m.ctx.Bool(isNilValue(x) && isNilValue(y))
	}
	switch a := x.(type) {
	case Pointer:
		b, ok := y.(Pointer)
		if !ok {
			return m.ctx.Bool(false)
		}
		return m.ctx.Bool(a.loc == b.loc)
	case IfaceV:
		b, ok := y.(IfaceV)
		if !ok {
			return m.ctx.Bool(false)
		}
		if !types.Identical(a.t, b.t) {
			return m.ctx.Bool(false)
		}
		return m.valuesEqual(a.v, b.v)
	case *ErrObj:
		b, ok := y.(*ErrObj)
		return m.ctx.Bool(ok && a == b)
	case *Term:
		b, ok := y.(*Term)
		if !ok {
			return m.ctx.Bool(false)
		}
		if a.Sort.K == KF32 || a.Sort.K == KF64 {
			return m.ctx.FCmp(OFEq, a, b)
		}
		return m.ctx.Eq(a, b)
	case StringV:
		return m.binop(token.EQL, a, y, nil).(*Term)
	case *StructV:
		b := y.(*StructV)
		r := m.ctx.Bool(true)
		for i := range a.f {
			r = m.ctx.And(r, m.valuesEqual(a.f[i], b.f[i]))
		}
		return r
	case *ArrayV:
		b := y.(*ArrayV)
		r := m.ctx.Bool(true)
		for i := range a.e {
			r = m.ctx.And(r, m.valuesEqual(a.e[i], b.e[i]))
		}
		return r
	case *FuncV:
		m.unsupported("func comparison")
	}
	m.unsupported(fmt.Sprintf("equality on %T", x))
	return nil
}

func (m *Machine) termBinop(op token.Token, a, b *Term) Value {
	c := m.ctx
	switch a.Sort.K {
	case KBool:
		switch op {
		case token.EQL:
			return c.Eq(a, b)
		case token.NEQ:
			return c.Not(c.Eq(a, b))
		case token.AND, token.LAND:
			return c.And(a, b)
		case token.OR, token.LOR:
			return c.Or(a, b)
		}
	case KF32, KF64:
		switch op {
		case token.ADD:
			return c.FArith(OFAdd, a, b)
		case token.SUB:
			return c.FArith(OFSub, a, b)
		case token.MUL:
			return c.FArith(OFMul, a, b)
		case token.QUO:
			return c.FArith(OFDiv, a, b)
		case token.EQL:
			return c.FCmp(OFEq, a, b)
		case token.NEQ:
			return c.Not(c.FCmp(OFEq, a, b))
		case token.LSS:
			return c.FCmp(OFLt, a, b)
		case token.LEQ:
			return c.FCmp(OFLe, a, b)
		case token.GTR:
			return c.FCmp(OFLt, b, a)
		case token.GEQ:
			return c.FCmp(OFLe, b, a)
		}
	case KInt:
		switch op {
		case token.SHL, token.SHR:
			if b.Sort.Signed {
				m.mayPanic(c.Lt(b, c.IntI(b.Sort, 0)), "negative shift amount")
			}
			if op == token.SHL {
				return c.Shift(OShl, a, b)
			}
			return c.Shift(OShr, a, b)
		}
		if a.Sort != b.Sort {
			m.unsupported(fmt.Sprintf("int binop sort mismatch %v %v", a.Sort, b.Sort))
		}
		switch op {
		case token.ADD:
			return c.Arith(OAdd, a, b)
		case token.SUB:
			return c.Arith(OSub, a, b)
		case token.MUL:
			return c.Arith(OMul, a, b)
		case token.QUO:
			m.mayPanic(c.Eq(b, c.IntI(b.Sort, 0)), "integer divide by zero")
			return c.Div(a, b)
		case token.REM:
			m.mayPanic(c.Eq(b, c.IntI(b.Sort, 0)), "integer divide by zero")
			return c.Rem(a, b)
		case token.AND:
			return c.Bitop(OAnd, a, b)
		case token.OR:
			return c.Bitop(OOr, a, b)
		case token.XOR:
			return c.Bitop(OXor, a, b)
		case token.AND_NOT:
			return c.Bitop(OAnd, a, c.BitNot(b))
		case token.EQL:
			return c.Eq(a, b)
		case token.NEQ:
			return c.Not(c.Eq(a, b))
		case token.LSS:
			return c.Lt(a, b)
		case token.LEQ:
			return c.Le(a, b)
		case token.GTR:
			return c.Lt(b, a)
		case token.GEQ:
			return c.Le(b, a)
		}
	}
	m.unsupported(fmt.Sprintf("binop %s on %v", op, a.Sort))
	return nil
}

func (m *Machine) convert(x Value, from, to types.Type) Value {
	fu, tu := from.Underlying(), to.Underlying()
	if t, ok := x.(*Term); ok {
		ts, ok2 := sortOfType(to)
		if !ok2 {
			if tb, ok3 := tu.(*types.Basic); ok3 && tb.Info()&types.IsString != 0 {
				// int -> string (rune)
				if c, okc := t.ConstInt64(); okc {
					return m.strConst(string(rune(c)))
				}
			}
			m.unsupported("convert term to " + to.String())
		}
		c := m.ctx
		switch {
		case t.Sort.K == KInt && ts.K == KInt:
			return c.Conv(t, ts)
		case t.Sort.K == KInt && (ts.K == KF32 || ts.K == KF64):
			return c.IToF(t, ts)
		case (t.Sort.K == KF32 || t.Sort.K == KF64) && ts.K == KInt:
			return c.FToI(t, ts)
		case (t.Sort.K == KF32 || t.Sort.K == KF64) && (ts.K == KF32 || ts.K == KF64):
			return c.FConv(t, ts)
		case t.Sort.K == KBool && ts.K == KBool:
			return t
		}
		m.unsupported(fmt.Sprintf("convert %v to %v", t.Sort, ts))
	}
	switch v := x.(type) {
	case StringV:
		if _, ok := tu.(*types.Slice); ok {
			return m.bytesSlice(append([]*Term(nil), v.b...))
		}
		return v
	case SliceV:
		if tb, ok := tu.(*types.Basic); ok && tb.Info()&types.IsString != 0 {
			if v.arr == nil {
				return StringV{}
			}
			return StringV{b: m.sliceBytes(v)}
		}
		return v
	case Pointer:
		return v
	}
	_ = fu
	m.unsupported(fmt.Sprintf("convert %T from %s to %s", x, from, to))
	return nil
}

// ---------------------------------------------------------------- calls

func (m *Machine) doCall(fr *Frame, call *ssa.CallCommon) Value {
	args := make([]Value, 0, len(call.Args)+1)
	if call.IsInvoke() {
		recv := m.eval(fr, call.Value)
		iv, ok := recv.(IfaceV)
		if !ok {
			m.unsupported(fmt.Sprintf("invoke on %T", recv))
		}
		if iv.t == nil {
			m.goPanic("nil interface method call " + call.Method.Name())
		}
		for _, a := range call.Args {
			args = append(args, m.eval(fr, a))
		}
		return m.invoke(iv, call.Method, args)
	}
	for _, a := range call.Args {
		args = append(args, m.eval(fr, a))
	}
	if fn := call.StaticCallee(); fn != nil {
		if len(fn.FreeVars) > 0 {
			cl := m.eval(fr, call.Value).(*FuncV)
			return m.callClosure(cl, args)
		}
		return m.callFunction(fn, args)
	}
	if b, ok := call.Value.(*ssa.Builtin); ok {
		return m.builtin(b.Name(), args, call)
	}
	fv, ok := m.eval(fr, call.Value).(*FuncV)
	if !ok {
		m.unsupported("call of non-function value")
	}
	if fv == nil {
		m.goPanic("call of nil function")
	}
	return m.callClosure(fv, args)
}

func (m *Machine) callClosure(fv *FuncV, args []Value) Value {
	if fv.intr != "" {
		return m.intrinsicClosure(fv, args)
	}
	if fv.hasRecv {
		args = append([]Value{fv.recv}, args...)
	}
	if len(fv.binds) > 0 {
		if v, ok := m.intercept(fv.fn, args); ok {
			return v
		}
		return m.runFunction(fv.fn, args, fv.binds)
	}
	return m.callFunction(fv.fn, args)
}

func (m *Machine) invoke(iv IfaceV, method *types.Func, args []Value) Value {
	if eo, ok := iv.v.(*ErrObj); ok {
		switch method.Name() {
		case "Error":
			return m.strConst(eo.msg)
		case "Unwrap":
			if eo.wrapped == nil {
				return IfaceV{}
			}
			return eo.wrapped
		}
		m.unsupported("method " + method.Name() + " on intrinsic error")
	}
	if v, ok := m.invokeOpaque(iv, method, args); ok {
		return v
	}
	fn := m.prog.LookupMethod(iv.t, method.Pkg(), method.Name())
	if fn == nil {
		m.unsupported("method lookup failed: " + iv.t.String() + "." + method.Name())
	}
	return m.callFunction(fn, append([]Value{iv.v}, args...))
}

func (m *Machine) doDefer(fr *Frame, in *ssa.Defer) {
	call := &in.Call
	// evaluate function value and args now
	var thunk func()
	args := make([]Value, len(call.Args))
	for i, a := range call.Args {
		args[i] = m.eval(fr, a)
	}
	switch {
	case call.IsInvoke():
		iv := m.eval(fr, call.Value).(IfaceV)
		thunk = func() { m.invoke(iv, call.Method, args) }
	case call.StaticCallee() != nil && len(call.StaticCallee().FreeVars) == 0:
		fn := call.StaticCallee()
		thunk = func() { m.callFunction(fn, args) }
	default:
		if b, ok := call.Value.(*ssa.Builtin); ok {
			thunk = func() { m.builtin(b.Name(), args, call) }
		} else {
			fv := m.eval(fr, call.Value).(*FuncV)
			thunk = func() { m.callClosure(fv, args) }
		}
	}
	fr.defers = append(fr.defers, thunk)
}

func (m *Machine) builtin(name string, args []Value, call *ssa.CallCommon) Value {
	switch name {
	case "len":
		switch x := args[0].(type) {
		case SliceV:
			return m.ctx.IntI(SI64, int64(x.len))
		case StringV:
			return m.ctx.IntI(SI64, int64(len(x.b)))
		case *MapV:
			if x == nil {
				return m.ctx.IntI(SI64, 0)
			}
			return m.ctx.IntI(SI64, int64(len(x.m)))
		case Pointer:
			if al, ok := x.loc.(*ArrayLoc); ok {
				return m.ctx.IntI(SI64, int64(len(al.elems)))
			}
		case *ArrayV:
			return m.ctx.IntI(SI64, int64(len(x.e)))
		}
	case "cap":
		switch x := args[0].(type) {
		case SliceV:
			return m.ctx.IntI(SI64, int64(x.cap))
		}
	case "append":
		s := args[0].(SliceV)
		var add []Value
		switch t := args[1].(type) {
		case SliceV:
			for i := 0; i < t.len; i++ {
				add = append(add, m.load(t.arr.elems[t.off+i]))
			}
		case StringV:
			for _, b := range t.b {
				add = append(add, b)
			}
		default:
			m.unsupported(fmt.Sprintf("append of %T", args[1]))
		}
		if len(add) == 0 {
			return s
		}
		elemT := call.Args[0].Type().Underlying().(*types.Slice).Elem()
		if s.arr != nil && s.len+len(add) <= s.cap {
			for i, v := range add {
				m.store(s.arr.elems[s.off+s.len+i], v)
			}
			return SliceV{arr: s.arr, off: s.off, len: s.len + len(add), cap: s.cap}
		}
		// grow: fresh backing array, capacity = new length (growth policy not modelled)
		n := s.len + len(add)
		arr := m.newArray(elemT, n)
		for i := 0; i < s.len; i++ {
			m.storeRaw(arr.elems[i], m.load(s.arr.elems[s.off+i]))
		}
		for i, v := range add {
			m.storeRaw(arr.elems[s.len+i], v)
		}
		m.allocBytes += int64(n) * m.sizes.Sizeof(elemT)
		return SliceV{arr: arr, off: 0, len: n, cap: n}
	case "copy":
		d := args[0].(SliceV)
		var src []Value
		switch t := args[1].(type) {
		case SliceV:
			for i := 0; i < t.len; i++ {
				src = append(src, m.load(t.arr.elems[t.off+i]))
			}
		case StringV:
			for _, b := range t.b {
				src = append(src, b)
			}
		}
		n := len(src)
		if d.len < n {
			n = d.len
		}
		for i := 0; i < n; i++ {
			m.store(d.arr.elems[d.off+i], src[i])
		}
		return m.ctx.IntI(SI64, int64(n))
	case "recover":
		return IfaceV{}
	case "print", "println":
		return nil
	case "min", "max":
		a, b := args[0].(*Term), args[1].(*Term)
		var c *Term
		if a.Sort.K == KInt {
			c = m.ctx.Lt(a, b)
		} else {
			m.unsupported("float min/max")
		}
		if name == "min" {
			return m.ctx.Ite(c, a, b)
		}
		return m.ctx.Ite(c, b, a)
	case "delete":
		mp := args[0].(*MapV)
		if mp != nil {
			k := m.mapKey(args[1])
			delete(mp.m, k)
			delete(mp.kv, k)
			for i, kk := range mp.keys {
				if kk == k {
					mp.keys = append(mp.keys[:i], mp.keys[i+1:]...)
					break
				}
			}
		}
		return nil
	}
	m.unsupported("builtin " + name)
	return nil
}

// ---------------------------------------------------------------- merge-mode (pure callee summaries)

// canMerge: static check that fn is a small pure function (no stores, allocs, loops).
func (m *Machine) canMerge(fn *ssa.Function) bool {
	m.sh.mu.Lock()
	v, ok := m.sh.mergeable[fn]
	m.sh.mu.Unlock()
	if ok {
		return v
	}
	r := m.computeMergeable(fn, 0)
	m.sh.mu.Lock()
	m.sh.mergeable[fn] = r
	m.sh.mu.Unlock()
	return r
}

func (m *Machine) computeMergeable(fn *ssa.Function, depth int) bool {
	if fn.Blocks == nil || depth > 4 || len(fn.Blocks) > 24 {
		return false
	}
	if strings.HasPrefix(fn.Name(), "Verif") || isVrtMethod(fn) {
		return false
	}
	hasIf := false
	// acyclic check: every successor has a higher index or CFG is a DAG (DFS)
	state := map[*ssa.BasicBlock]int{}
	var dfs func(b *ssa.BasicBlock) bool
	dfs = func(b *ssa.BasicBlock) bool {
		state[b] = 1
		for _, s := range b.Succs {
			if state[s] == 1 {
				return false
			}
			if state[s] == 0 && !dfs(s) {
				return false
			}
		}
		state[b] = 2
		return true
	}
	if !dfs(fn.Blocks[0]) {
		return false
	}
	for _, b := range fn.Blocks {
		for _, instr := range b.Instrs {
			switch in := instr.(type) {
			case *ssa.BinOp, *ssa.Convert, *ssa.ChangeType, *ssa.Jump, *ssa.Return, *ssa.Phi, *ssa.FieldAddr, *ssa.Field, *ssa.Extract, *ssa.DebugRef, *ssa.Panic:
			case *ssa.UnOp:
			case *ssa.If:
				hasIf = true
			case *ssa.Call:
				callee := in.Call.StaticCallee()
				if callee == nil {
					return false
				}
				if isPureIntrinsic(callee.String()) {
					continue
				}
				if callee == fn || !m.computeMergeableCached(callee, depth+1) {
					return false
				}
				hasIf = true // callee may fork
			default:
				return false
			}
		}
	}
	return hasIf
}

func (m *Machine) computeMergeableCached(fn *ssa.Function, depth int) bool {
	m.sh.mu.Lock()
	v, ok := m.sh.mergeableInner[fn]
	m.sh.mu.Unlock()
	if ok {
		return v
	}
	r := m.computeMergeableInner(fn, depth)
	m.sh.mu.Lock()
	m.sh.mergeableInner[fn] = r
	m.sh.mu.Unlock()
	return r
}

// inner: same as computeMergeable but a function without branches is fine as a callee.
func (m *Machine) computeMergeableInner(fn *ssa.Function, depth int) bool {
	if fn.Blocks == nil || depth > 4 || len(fn.Blocks) > 24 {
		return false
	}
	if m.computeMergeable(fn, depth) {
		return true
	}
	// accept straight-line pure functions
	if len(fn.Blocks) != 1 {
		return false
	}
	for _, instr := range fn.Blocks[0].Instrs {
		switch in := instr.(type) {
		case *ssa.BinOp, *ssa.Convert, *ssa.ChangeType, *ssa.Return, *ssa.FieldAddr, *ssa.Field, *ssa.Extract, *ssa.DebugRef, *ssa.UnOp:
		case *ssa.Call:
			callee := in.Call.StaticCallee()
			if callee == nil {
				return false
			}
			if isPureIntrinsic(callee.String()) {
				continue
			}
			if !m.computeMergeableCached(callee, depth+1) {
				return false
			}
		default:
			return false
		}
	}
	return true
}

func (m *Machine) mergeCall(fn *ssa.Function, args []Value) (result Value, ok bool) {
	type outcome struct {
		guard *Term
		val   Value
		ivs   []IV // intervals of the int components of val under the run's guard
	}
	scope := m.ctx.saveScope()
	var outs []outcome
	var panics []guardedPanic
	dec := []int{}
	savedFr, savedDepth := m.fr, m.depth
	for iter := 0; iter < 128; iter++ {
		mc := &mergeCtx{baseOwner: m.frameSerial + 1, dec: dec, guard: m.ctx.Bool(true)}
		m.merge = mc
		var val Value
		aborted := false
		func() {
			defer func() {
				if r := recover(); r != nil {
					m.fr, m.depth = savedFr, savedDepth
					if _, isAbort := r.(mergeAbort); isAbort {
						aborted = true
						return
					}
					m.merge = nil
					panic(r)
				}
			}()
			val = m.runFunction(fn, args, nil)
		}()
		m.merge = nil
		if aborted {
			m.ctx.restoreScope(scope)
			return nil, false
		}
		if !mc.guard.IsFalse() {
			outs = append(outs, outcome{mc.guard, val, m.valueIVs(val)})
		}
		m.ctx.restoreScope(scope)
		scope = m.ctx.saveScope()
		panics = append(panics, mc.panics...)
		// next decision vector: increment last 0 to 1, dropping trailing 1s
		dec = mc.dec
		i := len(dec) - 1
		for i >= 0 && dec[i] == 1 {
			i--
		}
		if i < 0 {
			// done
			var merged Value
			if len(outs) == 0 {
				return nil, false
			}
			merged = outs[len(outs)-1].val
			for j := len(outs) - 2; j >= 0; j-- {
				var okm bool
				merged, okm = m.mergeValues(outs[j].guard, outs[j].val, merged)
				if !okm {
					return nil, false
				}
			}
			// permanent facts: each int component lies in the union of its per-outcome intervals
			comps := m.valueTerms(merged)
			for k, t := range comps {
				if t == nil || t.IsConst() {
					continue
				}
				var u IV
				okU := true
				for j, o := range outs {
					if k >= len(o.ivs) || o.ivs[k].Lo == nil {
						okU = false
						break
					}
					if j == 0 {
						u = o.ivs[k]
					} else {
						u = u.join(o.ivs[k])
					}
				}
				if okU {
					if f, ok := m.ctx.facts[t]; ok {
						u = u.meet(f)
					}
					if !u.empty() {
						m.ctx.facts[t] = u
						m.ctx.ivChanged()
					}
				}
			}
			for _, p := range panics {
				m.mayPanic(p.cond, p.what)
			}
			m.nMerged++
			return merged, true
		}
		dec = append(append([]int(nil), dec[:i]...), 1)
	}
	return nil, false
}

func (m *Machine) mergeValues(g *Term, a, b Value) (Value, bool) {
	switch x := a.(type) {
	case *Term:
		y, ok := b.(*Term)
		if !ok || x.Sort != y.Sort {
			return nil, false
		}
		return m.ctx.Ite(g, x, y), true
	case TupleV:
		y, ok := b.(TupleV)
		if !ok || len(x) != len(y) {
			return nil, false
		}
		out := make(TupleV, len(x))
		for i := range x {
			v, ok := m.mergeValues(g, x[i], y[i])
			if !ok {
				return nil, false
			}
			out[i] = v
		}
		return out, true
	case *StructV:
		y, ok := b.(*StructV)
		if !ok || len(x.f) != len(y.f) {
			return nil, false
		}
		out := &StructV{f: make([]Value, len(x.f))}
		for i := range x.f {
			v, ok := m.mergeValues(g, x.f[i], y.f[i])
			if !ok {
				return nil, false
			}
			out.f[i] = v
		}
		return out, true
	case nil:
		return nil, b == nil
	case IfaceV:
		y, ok := b.(IfaceV)
		if ok && x.t == nil && y.t == nil {
			return x, true
		}
		if ok && x.t != nil && y.t != nil && types.Identical(x.t, y.t) {
			if xe, ok1 := x.v.(*ErrObj); ok1 {
				if ye, ok2 := y.v.(*ErrObj); ok2 && xe == ye {
					return x, true
				}
			}
		}
		return nil, false
	case Pointer:
		y, ok := b.(Pointer)
		if ok && x.loc == y.loc {
			return x, true
		}
		return nil, false
	case StringV:
		y, ok := b.(StringV)
		if !ok || len(x.b) != len(y.b) {
			return nil, false
		}
		out := make([]*Term, len(x.b))
		for i := range x.b {
			out[i] = m.ctx.Ite(g, x.b[i], y.b[i])
		}
		return StringV{b: out}, true
	}
	return nil, false
}

// valueTerms flattens the scalar int terms of a (possibly tuple/struct) value, in a fixed order;
// non-int components are nil placeholders.
func (m *Machine) valueTerms(v Value) []*Term {
	switch x := v.(type) {
	case *Term:
		if x.Sort.K == KInt {
			return []*Term{x}
		}
		return []*Term{nil}
	case TupleV:
		var out []*Term
		for _, e := range x {
			out = append(out, m.valueTerms(e)...)
		}
		return out
	case *StructV:
		var out []*Term
		for _, e := range x.f {
			out = append(out, m.valueTerms(e)...)
		}
		return out
	}
	return []*Term{nil}
}

func (m *Machine) valueIVs(v Value) []IV {
	ts := m.valueTerms(v)
	out := make([]IV, len(ts))
	for i, t := range ts {
		if t != nil {
			out[i] = m.ctx.IV(t)
		}
	}
	return out
}
