package main

// Concrete evaluation of IR terms under a variable assignment.  Used (a) as a counterexample
// cache: a model of the current path condition decides one side of every branch without a
// solver call, and (b) to validate solver models against the IR semantics (a model that does
// not satisfy the formula it was returned for exposes a lowering bug).

import (
	"math"
	"math/big"
)

type Model map[*Term]*big.Int // variable -> value (bools 0/1; ints as mathematical value)

type evaluator struct {
	m    Model
	memo map[*Term]*big.Int
	ok   bool
}

func evalTerm(t *Term, m Model) (*big.Int, bool) {
	e := &evaluator{m: m, memo: map[*Term]*big.Int{}, ok: true}
	v := e.ev(t)
	return v, e.ok
}

func evalBool(t *Term, m Model) (bool, bool) {
	v, ok := evalTerm(t, m)
	if !ok || v == nil {
		return false, false
	}
	return v.Sign() != 0, true
}

func b2i(b bool) *big.Int {
	if b {
		return bigOne
	}
	return bigZero
}

func (e *evaluator) f64(t *Term) float64 {
	v := e.ev(t)
	if v == nil {
		return 0
	}
	if t.Sort.K == KF32 {
		return float64(math.Float32frombits(uint32(v.Uint64())))
	}
	return math.Float64frombits(v.Uint64())
}

func (e *evaluator) fromF(s Sort, f float64) *big.Int {
	if s.K == KF32 {
		return new(big.Int).SetUint64(uint64(math.Float32bits(float32(f))))
	}
	return new(big.Int).SetUint64(math.Float64bits(f))
}

func (e *evaluator) ev(t *Term) *big.Int {
	if v, ok := e.memo[t]; ok {
		return v
	}
	v := e.ev1(t)
	e.memo[t] = v
	return v
}

func (e *evaluator) ev1(t *Term) *big.Int {
	switch t.Op {
	case OConst:
		return t.V
	case OVar:
		if v, ok := e.m[t]; ok {
			return v
		}
		return bigZero
	}
	a := func(i int) *big.Int { return e.ev(t.Args[i]) }
	s := t.Sort
	switch t.Op {
	case OAdd:
		return wrapBig(new(big.Int).Add(a(0), a(1)), s)
	case OSub:
		return wrapBig(new(big.Int).Sub(a(0), a(1)), s)
	case OMul:
		return wrapBig(new(big.Int).Mul(a(0), a(1)), s)
	case ONeg:
		return wrapBig(new(big.Int).Neg(a(0)), s)
	case ODiv:
		if a(1).Sign() == 0 {
			return bigZero
		}
		return wrapBig(truncDiv(a(0), a(1)), s)
	case ORem:
		if a(1).Sign() == 0 {
			return bigZero
		}
		return wrapBig(truncRem(a(0), a(1)), s)
	case OAnd, OOr, OXor:
		m := pow2(s.W)
		x := new(big.Int).Mod(a(0), m)
		y := new(big.Int).Mod(a(1), m)
		var r *big.Int
		switch t.Op {
		case OAnd:
			r = new(big.Int).And(x, y)
		case OOr:
			r = new(big.Int).Or(x, y)
		default:
			r = new(big.Int).Xor(x, y)
		}
		return wrapBig(r, s)
	case OBitNot:
		m := pow2(s.W)
		x := new(big.Int).Mod(a(0), m)
		return wrapBig(new(big.Int).Sub(new(big.Int).Sub(m, bigOne), x), s)
	case OShl, OShr:
		amt := a(1)
		if !amt.IsInt64() || amt.Int64() >= int64(s.W) || amt.Sign() < 0 {
			if t.Op == OShr && s.Signed && a(0).Sign() < 0 {
				return big.NewInt(-1)
			}
			return bigZero
		}
		k := uint(amt.Int64())
		if t.Op == OShl {
			return wrapBig(new(big.Int).Lsh(a(0), k), s)
		}
		return wrapBig(new(big.Int).Rsh(a(0), k), s)
	case OConv:
		return wrapBig(a(0), s)
	case OExtract:
		x := new(big.Int).Mod(a(0), pow2(t.Args[0].Sort.W))
		x.Rsh(x, uint(t.Lo))
		return x.Mod(x, pow2(t.Hi-t.Lo+1))
	case OConcat:
		r := new(big.Int)
		for i := range t.Args {
			r.Lsh(r, uint(t.Args[i].Sort.W))
			r.Or(r, a(i))
		}
		return r
	case OIte:
		if a(0).Sign() != 0 {
			return a(1)
		}
		return a(2)
	case OEq:
		return b2i(a(0).Cmp(a(1)) == 0)
	case OLt:
		return b2i(a(0).Cmp(a(1)) < 0)
	case OLe:
		return b2i(a(0).Cmp(a(1)) <= 0)
	case OBAnd:
		return b2i(a(0).Sign() != 0 && a(1).Sign() != 0)
	case OBOr:
		return b2i(a(0).Sign() != 0 || a(1).Sign() != 0)
	case OBNot:
		return b2i(a(0).Sign() == 0)
	case OFAdd, OFSub, OFMul, OFDiv:
		x, y := e.f64(t.Args[0]), e.f64(t.Args[1])
		if s.K == KF32 {
			x32, y32 := float32(x), float32(y)
			var r float32
			switch t.Op {
			case OFAdd:
				r = x32 + y32
			case OFSub:
				r = x32 - y32
			case OFMul:
				r = x32 * y32
			default:
				r = x32 / y32
			}
			return new(big.Int).SetUint64(uint64(math.Float32bits(r)))
		}
		var r float64
		switch t.Op {
		case OFAdd:
			r = x + y
		case OFSub:
			r = x - y
		case OFMul:
			r = x * y
		default:
			r = x / y
		}
		return new(big.Int).SetUint64(math.Float64bits(r))
	case OFNeg:
		v := a(0)
		if s.K == KF32 {
			return new(big.Int).SetUint64(uint64(uint32(v.Uint64()) ^ 0x80000000))
		}
		return new(big.Int).SetUint64(v.Uint64() ^ (1 << 63))
	case OFEq:
		return b2i(e.f64(t.Args[0]) == e.f64(t.Args[1]))
	case OFLt:
		return b2i(e.f64(t.Args[0]) < e.f64(t.Args[1]))
	case OFLe:
		return b2i(e.f64(t.Args[0]) <= e.f64(t.Args[1]))
	case OFIsNaN:
		x := e.f64(t.Args[0])
		return b2i(x != x)
	case OFFromBits:
		return new(big.Int).Mod(a(0), pow2(t.Args[0].Sort.W))
	case OFBits:
		return a(0)
	case OFConv:
		return e.fromF(s, e.f64(t.Args[0]))
	case OIToF:
		f, _ := new(big.Float).SetInt(a(0)).Float64()
		if s.K == KF32 {
			f32, _ := new(big.Float).SetInt(a(0)).Float32()
			return new(big.Int).SetUint64(uint64(math.Float32bits(f32)))
		}
		return new(big.Int).SetUint64(math.Float64bits(f))
	case OFToI:
		x := e.f64(t.Args[0])
		if x != x || math.Abs(x) > 9e18 {
			e.ok = false
			return bigZero
		}
		return wrapBig(big.NewInt(int64(x)), s)
	}
	e.ok = false
	return bigZero
}
