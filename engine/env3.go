package main

// Environment model, part 3: an identity transport for the whispertool HTTP protocol (C12).
// The real handlers (cmd/server.go) and the real client functions run from SSA; replaced by
// stubs are: the TCP/HTTP transport (http.Get dispatches straight to the handler registered for
// the path), URL query parsing (done concretely by the engine with net/url), and the textual
// rendering of instants (time.Format / time.Parse form an identity pair over opaque tokens).

import (
	"fmt"
	"go/types"
	"net/url"
	"strconv"
	"strings"

	"golang.org/x/tools/go/ssa"
)

type RespObj struct {
	header *MapV
	body   []*Term
	status int
}

type BodyObj struct{ data []*Term }

var respWriterType = types.NewPointer(types.NewNamed(types.NewTypeName(0, nil, "intrinsicResponseWriter", nil), types.NewStruct(nil, nil), nil))
var bodyType = types.NewPointer(types.NewNamed(types.NewTypeName(0, nil, "intrinsicBody", nil), types.NewStruct(nil, nil), nil))

var routes = map[string]string{"/view": "handleView", "/view-raw": "handleViewRaw", "/sum": "handleSum", "/items": "handleItems", "/files": "handleFiles"}

func newMapV() *MapV { return &MapV{m: map[string]Value{}, kv: map[string]Value{}} }

func (m *Machine) mapSet(mp *MapV, key string, v Value) {
	ks := "s:" + key
	if _, ok := mp.m[ks]; !ok {
		mp.keys = append(mp.keys, ks)
	}
	mp.m[ks] = v
	mp.kv[ks] = m.strConst(key)
}

func fieldIndex(t types.Type, name string) int {
	st := t.Underlying().(*types.Struct)
	for i := 0; i < st.NumFields(); i++ {
		if st.Field(i).Name() == name {
			return i
		}
	}
	return -1
}

func (m *Machine) timeToken(sec *Term) StringV {
	e := m.env
	for i, t := range e.timeTexts {
		if t == sec {
			return m.strConst(fmt.Sprintf("<time#%d>", i))
		}
	}
	e.timeTexts = append(e.timeTexts, sec)
	return m.strConst(fmt.Sprintf("<time#%d>", len(e.timeTexts)-1))
}

func (m *Machine) envIntrinsic3(name string, fn *ssa.Function, args []Value) (Value, bool) {
	e := m.env
	c := m.ctx
	nilErr := IfaceV{}
	switch name {
	case "(time.Time).Format":
		m.stub(name)
		return m.timeToken(args[0].(*StructV).f[1].(*Term)), true
	case "time.Parse":
		m.stub(name)
		s := m.mustStr(args[1])
		if strings.HasPrefix(s, "<time#") && strings.HasSuffix(s, ">") {
			if i, err := strconv.Atoi(s[6 : len(s)-1]); err == nil && i < len(e.timeTexts) {
				return TupleV{m.timeValue(e.timeTexts[i]), nilErr}, true
			}
		}
		return TupleV{m.zero(fn.Signature.Results().At(0).Type()), m.newErr("parsing time: cannot parse "+s, nil)}, true
	case "net/url.QueryEscape":
		return m.strConst(url.QueryEscape(m.mustStr(args[0]))), true
	case "net/url.PathEscape":
		return m.strConst(url.PathEscape(m.mustStr(args[0]))), true
	case "strconv.Atoi":
		v, err := strconv.Atoi(m.mustStr(args[0]))
		if err != nil {
			return TupleV{c.IntI(SI64, 0), m.newErr(err.Error(), nil)}, true
		}
		return TupleV{c.IntI(SI64, int64(v)), nilErr}, true
	case "net/http.StatusText":
		v, _ := args[0].(*Term).ConstInt64()
		return m.strConst(fmt.Sprintf("status %d", v)), true
	case "net/http.Error":
		m.stub(name)
		ro := args[0].(IfaceV).v.(*RespObj)
		code, _ := args[2].(*Term).ConstInt64()
		ro.status = int(code)
		ro.body = append(ro.body, args[1].(StringV).b...)
		return nil, true
	case "(*net/http.Request).ParseForm":
		return nilErr, true
	case "(net/http.Header).Set":
		mp := args[0].(*MapV)
		if mp == nil {
			m.goPanic("assignment to entry in nil map")
		}
		m.mapSet(mp, m.mustStr(args[1]), m.makeSliceOf(types.Typ[types.String], []Value{args[2]}))
		return nil, true
	case "(net/http.Header).Get":
		mp := args[0].(*MapV)
		if mp != nil {
			if v, ok := mp.m["s:"+m.mustStr(args[1])]; ok {
				sl := v.(SliceV)
				if sl.len > 0 {
					return m.load(sl.arr.elems[sl.off]), true
				}
			}
		}
		return m.strConst(""), true
	case "io/ioutil.ReadAll", "io.ReadAll":
		m.stub(name)
		iv := args[0].(IfaceV)
		bo, ok := iv.v.(*BodyObj)
		if !ok {
			m.unsupported("ReadAll on non-response body")
		}
		if len(bo.data) == 0 {
			return TupleV{m.bytesSlice(nil), nilErr}, true
		}
		return TupleV{m.bytesSlice(append([]*Term(nil), bo.data...)), nilErr}, true
	case "net/http.Get":
		m.stub(name)
		m.sideEffect(name)
		return m.httpGet(fn, m.mustStr(args[0])), true
	}
	return nil, false
}

func (m *Machine) httpGet(fn *ssa.Function, rawurl string) Value {
	e := m.env
	c := m.ctx
	respPtrT := fn.Signature.Results().At(0).Type()
	fail := func(msg string) Value { return TupleV{Pointer{}, m.newErr("Get "+rawurl+": "+msg, nil)} }
	u, err := url.Parse(rawurl)
	if err != nil {
		return fail(err.Error())
	}
	base := u.Scheme + "://" + u.Host
	baseDir, ok := e.served[base]
	if !ok {
		return fail("connection refused (no modelled server at " + base + ")")
	}
	hname, ok := routes[u.Path]
	cmdp := m.prog.ImportedPackage(cmdPkg)
	if cmdp == nil {
		m.unsupported("http.Get without package cmd loaded")
	}
	ro := &RespObj{header: newMapV(), status: 200}
	if !ok {
		ro.status = 404
	} else {
		appT := cmdp.Type("app").Type()
		hfn := m.prog.LookupMethod(types.NewPointer(appT), cmdp.Pkg, hname)
		if hfn == nil {
			m.unsupported("handler " + hname + " not found")
		}
		// receiver
		appLoc := m.newLoc(appT).(*StructLoc)
		m.storeRaw(appLoc.fields[fieldIndex(appT, "baseDir")], m.strConst(baseDir))
		// request with a parsed form (query parsing is done concretely by the engine)
		reqT := hfn.Signature.Params().At(1).Type().(*types.Pointer).Elem()
		reqLoc := m.newLoc(reqT).(*StructLoc)
		form := newMapV()
		q, qerr := url.ParseQuery(u.RawQuery)
		if qerr == nil {
			for k, vs := range q {
				vals := make([]Value, len(vs))
				for i, v := range vs {
					vals[i] = m.strConst(v)
				}
				m.mapSet(form, k, m.makeSliceOf(types.Typ[types.String], vals))
			}
		}
		m.storeRaw(reqLoc.fields[fieldIndex(reqT, "Form")], form)
		w := IfaceV{t: respWriterType, v: ro}
		// run through the real wrapHandler so that error responses are produced by the real code
		wrap := cmdp.Func("wrapHandler")
		bound := &FuncV{fn: hfn, recv: Pointer{loc: appLoc}, hasRecv: true}
		hv := m.callFunction(wrap, []Value{bound})
		m.callClosure(hv.(*FuncV), []Value{w, Pointer{loc: reqLoc}})
	}
	respT := respPtrT.(*types.Pointer).Elem()
	respLoc := m.newLoc(respT).(*StructLoc)
	m.storeRaw(respLoc.fields[fieldIndex(respT, "StatusCode")], c.IntI(SI64, int64(ro.status)))
	m.storeRaw(respLoc.fields[fieldIndex(respT, "Header")], ro.header)
	m.storeRaw(respLoc.fields[fieldIndex(respT, "Body")], IfaceV{t: bodyType, v: &BodyObj{data: ro.body}})
	return TupleV{Pointer{loc: respLoc}, IfaceV{}}
}

func (m *Machine) invokeOpaque3(iv IfaceV, method *types.Func, args []Value) (Value, bool) {
	switch o := iv.v.(type) {
	case *RespObj:
		switch method.Name() {
		case "Header":
			return o.header, true
		case "Write":
			p := args[0].(SliceV)
			if p.arr != nil {
				o.body = append(o.body, m.sliceBytes(p)...)
			}
			return TupleV{m.ctx.IntI(SI64, int64(p.len)), IfaceV{}}, true
		case "WriteHeader":
			v, _ := args[0].(*Term).ConstInt64()
			o.status = int(v)
			return nil, true
		}
	case *BodyObj:
		switch method.Name() {
		case "Close":
			return IfaceV{}, true
		}
	}
	return nil, false
}
