package main

// Environment model, part 2: intrinsics needed by package cmd (clock, text output, errgroup,
// filepath/glob model, ...).

import (
	"go/types"

	"golang.org/x/tools/go/ssa"
)

func (m *Machine) envIntrinsic2(name string, fn *ssa.Function, args []Value) (Value, bool) {
	return nil, false
}

func (m *Machine) invokeOpaque2(iv IfaceV, method *types.Func, args []Value) (Value, bool) {
	return nil, false
}

func (m *Machine) envClosure(fv *FuncV, args []Value) (Value, bool) {
	return nil, false
}
