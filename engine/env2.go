package main

// Environment model, part 2: intrinsics needed by package cmd (clock, text output, errgroup,
// filepath/glob model, random numbers, ...).

import (
	"fmt"
	"go/types"
	"path/filepath"
	"sort"
	"strings"

	"golang.org/x/tools/go/ssa"
)

type egState struct {
	err IfaceV
}

func (m *Machine) timeValue(sec *Term) *StructV {
	// time.Time{wall, ext, loc}: wall != 0 marks a non-zero instant; ext holds Unix seconds
	return &StructV{f: []Value{m.ctx.IntI(SU64, 1), m.ctx.Conv(sec, SI64), Pointer{}}}
}

func (m *Machine) envIntrinsic2(name string, fn *ssa.Function, args []Value) (Value, bool) {
	e := m.env
	c := m.ctx
	nilErr := IfaceV{}
	switch name {
	case "(*sync.Mutex).Lock", "(*sync.Mutex).Unlock", "(*sync.RWMutex).Lock", "(*sync.RWMutex).Unlock", "(*sync.RWMutex).RLock", "(*sync.RWMutex).RUnlock":
		m.stub(name)
		return nil, true
	case "log.Printf", "log.Println", "log.Print":
		m.stub(name)
		return nil, true
	case "time.Sleep":
		m.stub(name)
		return nil, true
	case "crypto/rand.Read":
		m.stub(name)
		return TupleV{c.IntI(SI64, int64(args[0].(SliceV).len)), nilErr}, true
	case "os.Getenv":
		m.stub(name)
		return m.strConst(""), true
	// ---- clock
	case "time.Now":
		m.stub(name)
		if e.now == nil {
			m.unsupported("time.Now without a harness clock (vrt.SetClock)")
		}
		e.nowCalls++
		if e.driftMax > 0 && e.nowCalls > 1 {
			// the wall clock advances between readings: each later reading adds an arbitrary delay
			m.sideEffect(name)
			d := c.Var(fmt.Sprintf("clockd_%d", e.nowCalls), SU32)
			m.assertPC(c.Le(d, c.IntI(SU32, e.driftMax)))
			e.now = c.Arith(OAdd, e.now, d)
		}
		return m.timeValue(e.now), true
	case "(time.Time).IsZero":
		t := args[0].(*StructV)
		return c.And(c.Eq(t.f[0].(*Term), c.IntI(SU64, 0)), c.Eq(t.f[1].(*Term), c.IntI(SI64, 0))), true
	case "(time.Time).UTC", "(time.Time).Local":
		return args[0], true
	case "(time.Time).Unix":
		return args[0].(*StructV).f[1], true
	case "(time.Time).Sub":
		a, b := args[0].(*StructV).f[1].(*Term), args[1].(*StructV).f[1].(*Term)
		return c.Arith(OMul, c.Arith(OSub, a, b), c.IntI(SI64, 1000000000)), true
	case "(time.Duration).String":
		m.stub(name)
		return m.opaqueText("duration", nil), true
	case "time.Unix":
		return m.timeValue(args[0].(*Term)), true
	// ---- output
	case "fmt.Fprintf", "fmt.Fprint", "fmt.Fprintln":
		m.stub(name)
		w := args[0].(IfaceV)
		var format string
		var va SliceV
		if name == "fmt.Fprintf" {
			format = m.mustStr(args[1])
			va = args[2].(SliceV)
		} else {
			format = "%v"
			va = args[1].(SliceV)
		}
		if p, ok := w.v.(Pointer); ok {
			if _, isSL := p.loc.(*StructLoc); isSL && strings.HasSuffix(w.t.String(), "strings.Builder") {
				txt := m.sprintf(format, va)
				m.builderAppend(p, txt.b)
				return TupleV{c.IntI(SI64, int64(len(txt.b))), nilErr}, true
			}
			if fo, isFile := p.loc.(*FileObj); isFile && fo.std == "" && !fo.open {
				return TupleV{c.IntI(SI64, 0), m.newErr("write: file already closed", nil)}, true
			}
		}
		if p, ok := w.v.(Pointer); ok {
			if bw, isBW := p.loc.(*BufWriterObj); isBW {
				bw.written = true
			}
		}
		if ro, isResp := w.v.(*RespObj); isResp {
			txt := m.sprintf(format, va)
			ro.body = append(ro.body, txt.b...)
			return TupleV{c.IntI(SI64, int64(len(txt.b))), nilErr}, true
		}
		if w.t == nil {
			m.goPanic("Fprintf to nil writer")
		}
		if fw, isFail := w.v.(*FailWriterObj); isFail {
			// one Write per Fprint* call, as in package fmt
			if fw.left <= 0 {
				return TupleV{c.IntI(SI64, 0), m.newErr("vrt: text output failed", nil)}, true
			}
			fw.left--
		}
		m.sideEffect(name)
		rec := LogRec{Format: format}
		for i := 0; i < va.len; i++ {
			rec.Args = append(rec.Args, m.load(va.arr.elems[va.off+i]))
		}
		e.log = append(e.log, rec)
		return TupleV{c.IntI(SI64, 1), nilErr}, true
	case "(*os.File).Write", "(*os.File).WriteString":
		m.stub(name)
		fo := fileObjOf(args[0])
		if fo == nil || !fo.open {
			return TupleV{c.IntI(SI64, 0), m.newErr("write: file already closed", nil)}, true
		}
		n := 0
		switch x := args[1].(type) {
		case SliceV:
			n = x.len
		case StringV:
			n = len(x.b)
		}
		return TupleV{c.IntI(SI64, int64(n)), nilErr}, true
	case "bufio.NewWriter":
		m.stub(name)
		// the text-out writer: formatting is not modelled, so the buffered writer is the file itself
		return Pointer{loc: &BufWriterObj{w: args[0].(IfaceV)}}, true
	case "(*bufio.Writer).Flush":
		m.stub(name)
		bw := args[0].(Pointer).loc.(*BufWriterObj)
		if p, ok := bw.w.v.(Pointer); ok {
			if fo, ok := p.loc.(*FileObj); ok && !fo.open {
				return m.newErr("flush: file already closed", nil), true
			}
			if fo, ok := p.loc.(*FileObj); ok && fo.full && bw.written {
				return m.newErr("write /dev/full: no space left on device", nil), true
			}
		}
		bw.flushed = true
		m.env.event("textout flush")
		return nilErr, true
	// ---- errgroup (run synchronously; DESIGN section 1.6)
	case "(*golang.org/x/sync/errgroup.Group).Go":
		m.stub(name)
		m.sideEffect(name)
		g := args[0].(Pointer).loc
		st, ok := e.groups[g]
		if !ok {
			st = &egState{}
			e.groups[g] = st
		}
		f := args[1].(*FuncV)
		// record the worker's writes to objects that existed before it started (C17.workers)
		savedBase, savedStores := m.workerBase, m.workerStores
		m.workerBase, m.workerStores = m.frameSerial+1, map[Loc]bool{}
		r := m.callClosure(f, nil)
		mine := m.workerStores
		m.workerBase, m.workerStores = savedBase, savedStores
		for _, other := range e.groupWrites[g] {
			for l := range mine {
				if other[l] {
					m.workerConflicts = append(m.workerConflicts, fmt.Sprintf("two errgroup workers write the same location (%T)", l))
				}
			}
		}
		e.groupWrites[g] = append(e.groupWrites[g], mine)
		if iv, ok := r.(IfaceV); ok && iv.t != nil && st.err.t == nil {
			st.err = iv
		}
		return nil, true
	case "(*golang.org/x/sync/errgroup.Group).Wait":
		g := args[0].(Pointer).loc
		if st, ok := e.groups[g]; ok {
			return st.err, true
		}
		return nilErr, true
	// ---- paths
	case "path/filepath.Join":
		sl := args[0].(SliceV)
		parts := make([]string, sl.len)
		for i := 0; i < sl.len; i++ {
			parts[i] = m.mustStr(m.load(sl.arr.elems[sl.off+i]))
		}
		return m.strConst(filepath.Join(parts...)), true
	case "path/filepath.Dir":
		return m.strConst(filepath.Dir(m.mustStr(args[0]))), true
	case "path/filepath.Base":
		return m.strConst(filepath.Base(m.mustStr(args[0]))), true
	case "path/filepath.Rel":
		r, err := filepath.Rel(m.mustStr(args[0]), m.mustStr(args[1]))
		if err != nil {
			return TupleV{m.strConst(""), m.newErr(err.Error(), nil)}, true
		}
		return TupleV{m.strConst(r), nilErr}, true
	case "path/filepath.ToSlash", "path/filepath.FromSlash", "path/filepath.Clean":
		if name == "path/filepath.Clean" {
			return m.strConst(filepath.Clean(m.mustStr(args[0]))), true
		}
		return args[0], true
	case "path/filepath.Glob":
		m.stub(name)
		pat := m.mustStr(args[0])
		var matches []string
		seen := map[string]bool{}
		for _, p := range e.order {
			f := e.files[p]
			if !f.exists {
				continue
			}
			// files and every parent directory are candidates
			cand := p
			for cand != "/" && cand != "." {
				if ok, _ := filepath.Match(pat, cand); ok && !seen[cand] {
					seen[cand] = true
					matches = append(matches, cand)
				}
				cand = filepath.Dir(cand)
			}
		}
		sort.Strings(matches)
		vals := make([]Value, len(matches))
		for i, s := range matches {
			vals[i] = m.strConst(s)
		}
		if len(vals) == 0 {
			return TupleV{SliceV{}, nilErr}, true
		}
		return TupleV{m.makeSliceOf(types.Typ[types.String], vals), nilErr}, true
	case "os.Stat", "os.Lstat":
		m.stub(name)
		path := m.mustStr(args[0])
		if f, ok := e.files[path]; ok && f.exists {
			return TupleV{IfaceV{t: fileInfoType, v: &FileInfoObj{size: int64(len(f.data))}}, nilErr}, true
		}
		for _, p := range e.order {
			if e.files[p].exists && strings.HasPrefix(p, path+"/") {
				return TupleV{IfaceV{t: fileInfoType, v: &FileInfoObj{size: 0, dir: true}}, nilErr}, true
			}
		}
		return TupleV{IfaceV{}, m.pathError("stat", path, true)}, true
	// ---- random numbers (generate)
	case "math/rand.NewSource":
		return IfaceV{t: fileInfoType, v: &FileInfoObj{}}, true
	case "math/rand.New":
		return Pointer{loc: &RandObj{}}, true
	case "(*math/rand.Rand).Intn", "math/rand.Intn":
		m.stub(name)
		m.sideEffect(name)
		var n *Term
		if name == "math/rand.Intn" {
			n = args[0].(*Term)
		} else {
			n = args[1].(*Term)
		}
		m.mayPanic(c.Le(n, c.IntI(n.Sort, 0)), "invalid argument to Intn")
		e.nrand++
		nm := fmt.Sprintf("rand_%d", e.nrand)
		if nc, ok := n.ConstInt64(); ok && nc <= 16 {
			// small ranges are case-split (every draw value explored), keeping float arithmetic concrete
			return c.IntI(SI64, int64(m.chooseFree(nm, int(nc)))), true
		}
		v := c.Var(nm, SI64)
		m.assertPC(c.And(c.Le(c.IntI(SI64, 0), v), c.Lt(v, c.Conv(n, SI64))))
		return v, true
	}
	return nil, false
}

type BufWriterObj struct {
	w       IfaceV
	flushed bool
	written bool
}

type RandObj struct{}

func (m *Machine) invokeOpaque2(iv IfaceV, method *types.Func, args []Value) (Value, bool) {
	switch o := iv.v.(type) {
	case Pointer:
		switch x := o.loc.(type) {
		case *BufWriterObj:
			if method.Name() == "Write" {
				x.written = true
				return TupleV{m.ctx.IntI(SI64, int64(args[0].(SliceV).len)), IfaceV{}}, true
			}
		case *FileObj:
			switch method.Name() {
			case "Write":
				if !x.open {
					return TupleV{m.ctx.IntI(SI64, 0), m.newErr("write: file already closed", nil)}, true
				}
				return TupleV{m.ctx.IntI(SI64, int64(args[0].(SliceV).len)), IfaceV{}}, true
			case "Close":
				v, _ := m.envIntrinsic("(*os.File).Close", nil, []Value{o})
				return v, true
			}
		}
	case *FailWriterObj:
		if method.Name() == "Write" {
			if o.left <= 0 {
				return TupleV{m.ctx.IntI(SI64, 0), m.newErr("vrt: text output failed", nil)}, true
			}
			o.left--
			return TupleV{m.ctx.IntI(SI64, int64(args[0].(SliceV).len)), IfaceV{}}, true
		}
	case *DiscardObj:
		if method.Name() == "Write" {
			return TupleV{m.ctx.IntI(SI64, int64(args[0].(SliceV).len)), IfaceV{}}, true
		}
	}
	return nil, false
}

type DiscardObj struct{}

// FailWriterObj: vrt.FailWriter - writes fail once `left` successful ones have happened
type FailWriterObj struct{ left int }

var discardType = types.NewPointer(types.NewNamed(types.NewTypeName(0, nil, "intrinsicDiscard", nil), types.NewStruct(nil, nil), nil))

func (m *Machine) envClosure(fv *FuncV, args []Value) (Value, bool) {
	return nil, false
}
