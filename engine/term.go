package main

// Term IR: typed scalar terms (machine integers with width+signedness, booleans,
// IEEE floats).  Every integer term denotes the mathematical value of a Go integer of its
// type (so a signed term denotes a value in [-2^(w-1), 2^(w-1)) and an unsigned one a value
// in [0,2^w)).  Constructors simplify (constant folding with Go's wrap-around semantics,
// bit-slice normalisation of shifts/ors/conversions into Extract/Concat) and compute a
// conservative interval used by the integer lowering to decide how many wrap cases an
// operation needs.

import (
	"fmt"
	"os"
	"math"
	"math/big"
	"sort"
	"strings"
)

type Kind uint8

const (
	KInt Kind = iota
	KBool
	KF32
	KF64
)

type Sort struct {
	K      Kind
	W      int
	Signed bool
}

var (
	SBool = Sort{K: KBool}
	SF32  = Sort{K: KF32}
	SF64  = Sort{K: KF64}
	SU8   = Sort{K: KInt, W: 8}
	SU16  = Sort{K: KInt, W: 16}
	SU32  = Sort{K: KInt, W: 32}
	SU64  = Sort{K: KInt, W: 64}
	SI8   = Sort{K: KInt, W: 8, Signed: true}
	SI16  = Sort{K: KInt, W: 16, Signed: true}
	SI32  = Sort{K: KInt, W: 32, Signed: true}
	SI64  = Sort{K: KInt, W: 64, Signed: true}
)

func USort(w int) Sort { return Sort{K: KInt, W: w} }

func (s Sort) String() string {
	switch s.K {
	case KBool:
		return "bool"
	case KF32:
		return "f32"
	case KF64:
		return "f64"
	}
	if s.Signed {
		return fmt.Sprintf("i%d", s.W)
	}
	return fmt.Sprintf("u%d", s.W)
}

func (s Sort) Min() *big.Int {
	if s.Signed {
		return new(big.Int).Neg(pow2(s.W - 1))
	}
	return big.NewInt(0)
}
func (s Sort) Max() *big.Int {
	if s.Signed {
		return new(big.Int).Sub(pow2(s.W-1), bigOne)
	}
	return new(big.Int).Sub(pow2(s.W), bigOne)
}

var bigOne = big.NewInt(1)
var bigZero = big.NewInt(0)
var pow2cache = map[int]*big.Int{}

func init() {
	for i := 0; i <= 200; i++ {
		pow2cache[i] = new(big.Int).Lsh(bigOne, uint(i))
	}
}

func pow2(n int) *big.Int {
	if p, ok := pow2cache[n]; ok {
		return p
	}
	return new(big.Int).Lsh(bigOne, uint(n))
}

// wrapBig reduces v into the range of sort s (two's complement wrap).
func wrapBig(v *big.Int, s Sort) *big.Int {
	m := pow2(s.W)
	r := new(big.Int).Mod(v, m) // Go's Mod is Euclidean: 0 <= r < m
	if s.Signed && r.Cmp(pow2(s.W-1)) >= 0 {
		r.Sub(r, m)
	}
	return r
}

type Op uint8

const (
	OConst Op = iota
	OVar
	OAdd
	OSub
	OMul
	ODiv
	ORem
	OAnd
	OOr
	OXor
	OShl
	OShr
	ONeg
	OBitNot
	OConv    // integer conversion to Sort
	OExtract // bits [Hi..Lo] of an unsigned term, result unsigned width Hi-Lo+1
	OConcat  // concatenation (MSB first) of unsigned terms, result unsigned
	OIte
	OEq
	OLt
	OLe
	OBAnd
	OBOr
	OBNot
	OFAdd
	OFSub
	OFMul
	OFDiv
	OFNeg
	OFEq
	OFLt
	OFLe
	OFIsNaN
	OFFromBits // unsigned int -> float of same width
	OFBits     // float -> unsigned int (only for terms that are not FFromBits; lowered through a definitional variable)
	OFConv     // float -> float of other width
	OIToF      // int -> float (round to nearest even)
	OFToI      // float -> int (truncation); Go leaves out-of-range undefined
)

var opNames = map[Op]string{OConst: "const", OVar: "var", OAdd: "add", OSub: "sub", OMul: "mul", ODiv: "div", ORem: "rem",
	OAnd: "and", OOr: "or", OXor: "xor", OShl: "shl", OShr: "shr", ONeg: "neg", OBitNot: "bitnot", OConv: "conv",
	OExtract: "extract", OConcat: "concat", OIte: "ite", OEq: "eq", OLt: "lt", OLe: "le", OBAnd: "band", OBOr: "bor",
	OBNot: "bnot", OFAdd: "fadd", OFSub: "fsub", OFMul: "fmul", OFDiv: "fdiv", OFNeg: "fneg", OFEq: "feq", OFLt: "flt",
	OFLe: "fle", OFIsNaN: "fisnan", OFFromBits: "ffrombits", OFBits: "fbits", OFConv: "fconv", OIToF: "itof", OFToI: "ftoi"}

type Term struct {
	Op     Op
	Sort   Sort
	Args   []*Term
	V      *big.Int // OConst: integer value / bool (0,1) / float bit pattern
	Name   string   // OVar
	Hi, Lo int      // OExtract
	ILo    *big.Int // interval (KInt only)
	IHi    *big.Int
	id     int
	size   int // dag size estimate (tree size capped)
}

type Ctx struct {
	tab   map[string]*Term
	next  int
	Vars  []*Term          // in creation order
	varBy map[string]*Term // by name
	// definitional side constraints (e.g. for OFBits of computed floats), boolean terms
	Defs []*Term
	nfb  int
	// subst: terms concretised on this path (t -> constant), applied by constructors
	subst map[*Term]*Term
	// path-sensitive interval knowledge (see IV)
	facts  map[*Term]IV     // permanent (e.g. merged callee results)
	over   map[*Term]IV     // scoped to the current path / merge run
	neq    map[*Term][]*big.Int
	ivMemo map[*Term]IV
}

func NewCtx() *Ctx {
	return &Ctx{tab: map[string]*Term{}, varBy: map[string]*Term{}, subst: map[*Term]*Term{}, facts: map[*Term]IV{}, over: map[*Term]IV{}, neq: map[*Term][]*big.Int{}, ivMemo: map[*Term]IV{}}
}

func (c *Ctx) intern(t *Term) *Term {
	var sb strings.Builder
	fmt.Fprintf(&sb, "%d|%d.%d.%v|", t.Op, t.Sort.K, t.Sort.W, t.Sort.Signed)
	for _, a := range t.Args {
		fmt.Fprintf(&sb, "%d,", a.id)
	}
	if t.V != nil {
		sb.WriteString(t.V.String())
	}
	sb.WriteString("|")
	sb.WriteString(t.Name)
	if t.Op == OExtract {
		fmt.Fprintf(&sb, "|%d.%d", t.Hi, t.Lo)
	}
	k := sb.String()
	if e, ok := c.tab[k]; ok {
		return e
	}
	c.next++
	t.id = c.next
	t.size = 1
	for _, a := range t.Args {
		t.size += a.size
		if t.size > 1<<30 {
			t.size = 1 << 30
		}
	}
	c.tab[k] = t
	return t
}

func (t *Term) IsConst() bool { return t.Op == OConst }
func (t *Term) IsTrue() bool  { return t.Op == OConst && t.Sort.K == KBool && t.V.Sign() != 0 }
func (t *Term) IsFalse() bool { return t.Op == OConst && t.Sort.K == KBool && t.V.Sign() == 0 }

func (t *Term) ConstInt64() (int64, bool) {
	if t.Op != OConst || t.Sort.K != KInt {
		return 0, false
	}
	if t.V.IsInt64() {
		return t.V.Int64(), true
	}
	return 0, false
}

func (t *Term) String() string {
	var sb strings.Builder
	t.str(&sb, 0)
	return sb.String()
}

func (t *Term) str(sb *strings.Builder, depth int) {
	if depth > 12 {
		sb.WriteString("…")
		return
	}
	switch t.Op {
	case OConst:
		switch t.Sort.K {
		case KBool:
			if t.V.Sign() != 0 {
				sb.WriteString("true")
			} else {
				sb.WriteString("false")
			}
		case KF64:
			fmt.Fprintf(sb, "%vf", math.Float64frombits(t.V.Uint64()))
		case KF32:
			fmt.Fprintf(sb, "%vf32", math.Float32frombits(uint32(t.V.Uint64())))
		default:
			sb.WriteString(t.V.String())
		}
	case OVar:
		sb.WriteString(t.Name)
	case OExtract:
		fmt.Fprintf(sb, "extract[%d:%d](", t.Hi, t.Lo)
		t.Args[0].str(sb, depth+1)
		sb.WriteString(")")
	default:
		sb.WriteString(opNames[t.Op])
		if t.Op == OConv {
			sb.WriteString("." + t.Sort.String())
		}
		sb.WriteString("(")
		for i, a := range t.Args {
			if i > 0 {
				sb.WriteString(",")
			}
			a.str(sb, depth+1)
		}
		sb.WriteString(")")
	}
}

// ---------- leaves

func (c *Ctx) Int(s Sort, v *big.Int) *Term {
	w := wrapBig(v, s)
	return c.intern(&Term{Op: OConst, Sort: s, V: w, ILo: w, IHi: w})
}
func (c *Ctx) IntI(s Sort, v int64) *Term { return c.Int(s, big.NewInt(v)) }
func (c *Ctx) IntU(s Sort, v uint64) *Term {
	return c.Int(s, new(big.Int).SetUint64(v))
}
func (c *Ctx) Bool(b bool) *Term {
	v := bigZero
	if b {
		v = bigOne
	}
	return c.intern(&Term{Op: OConst, Sort: SBool, V: v})
}
func (c *Ctx) F64(f float64) *Term {
	return c.intern(&Term{Op: OConst, Sort: SF64, V: new(big.Int).SetUint64(math.Float64bits(f))})
}
func (c *Ctx) F64b(bits uint64) *Term {
	return c.intern(&Term{Op: OConst, Sort: SF64, V: new(big.Int).SetUint64(bits)})
}
func (c *Ctx) F32(f float32) *Term {
	return c.intern(&Term{Op: OConst, Sort: SF32, V: new(big.Int).SetUint64(uint64(math.Float32bits(f)))})
}
func (c *Ctx) F32b(bits uint32) *Term {
	return c.intern(&Term{Op: OConst, Sort: SF32, V: new(big.Int).SetUint64(uint64(bits))})
}

// Var creates (or returns) the named input variable.  Float inputs are always presented as
// FFromBits(bitsvar) so that models are exact bit patterns; Var itself only makes int/bool.
func (c *Ctx) Var(name string, s Sort) *Term {
	if v, ok := c.varBy[name]; ok {
		if v.Sort != s {
			panic("var " + name + " redeclared with different sort")
		}
		return v
	}
	t := &Term{Op: OVar, Sort: s, Name: name}
	if s.K == KInt {
		t.ILo, t.IHi = s.Min(), s.Max()
	}
	t = c.intern(t)
	c.varBy[name] = t
	c.Vars = append(c.Vars, t)
	return t
}

// ---------- helpers

func (c *Ctx) sub(t *Term) *Term {
	if len(c.subst) == 0 {
		return t
	}
	if r, ok := c.subst[t]; ok {
		return r
	}
	return t
}

func (c *Ctx) mk(op Op, s Sort, args ...*Term) *Term {
	t := &Term{Op: op, Sort: s, Args: args}
	return t
}

func ivOf(t *Term) (lo, hi *big.Int) { return t.ILo, t.IHi }

func minBig(xs ...*big.Int) *big.Int {
	m := xs[0]
	for _, x := range xs[1:] {
		if x.Cmp(m) < 0 {
			m = x
		}
	}
	return m
}
func maxBig(xs ...*big.Int) *big.Int {
	m := xs[0]
	for _, x := range xs[1:] {
		if x.Cmp(m) > 0 {
			m = x
		}
	}
	return m
}

// clampIv: if raw interval [lo,hi] fits in sort range keep, else full range.
func (c *Ctx) setIv(t *Term, lo, hi *big.Int) {
	s := t.Sort
	if lo.Cmp(s.Min()) >= 0 && hi.Cmp(s.Max()) <= 0 {
		t.ILo, t.IHi = lo, hi
	} else {
		t.ILo, t.IHi = s.Min(), s.Max()
	}
}

// rawIv returns the interval of the un-wrapped mathematical result for add/sub/mul/neg.
func rawIv(op Op, a, b *Term) (lo, hi *big.Int) {
	switch op {
	case OAdd:
		return new(big.Int).Add(a.ILo, b.ILo), new(big.Int).Add(a.IHi, b.IHi)
	case OSub:
		return new(big.Int).Sub(a.ILo, b.IHi), new(big.Int).Sub(a.IHi, b.ILo)
	case OMul:
		p1 := new(big.Int).Mul(a.ILo, b.ILo)
		p2 := new(big.Int).Mul(a.ILo, b.IHi)
		p3 := new(big.Int).Mul(a.IHi, b.ILo)
		p4 := new(big.Int).Mul(a.IHi, b.IHi)
		return minBig(p1, p2, p3, p4), maxBig(p1, p2, p3, p4)
	case ONeg:
		return new(big.Int).Neg(a.IHi), new(big.Int).Neg(a.ILo)
	}
	panic("rawIv")
}

// ---------- integer arithmetic

func (c *Ctx) Arith(op Op, a, b *Term) *Term {
	a, b = c.sub(a), c.sub(b)
	if a.Sort != b.Sort {
		panic(fmt.Sprintf("arith sort mismatch %v %v (%v %v)", a.Sort, b.Sort, a, b))
	}
	s := a.Sort
	if a.IsConst() && b.IsConst() {
		switch op {
		case OAdd:
			return c.Int(s, new(big.Int).Add(a.V, b.V))
		case OSub:
			return c.Int(s, new(big.Int).Sub(a.V, b.V))
		case OMul:
			return c.Int(s, new(big.Int).Mul(a.V, b.V))
		}
	}
	switch op {
	case OAdd:
		if a.IsConst() && a.V.Sign() == 0 {
			return b
		}
		if b.IsConst() && b.V.Sign() == 0 {
			return a
		}
		if a.IsConst() && !b.IsConst() { // canonical: const on the right
			a, b = b, a
		}
	case OSub:
		if b.IsConst() && b.V.Sign() == 0 {
			return a
		}
		if a == b {
			return c.IntI(s, 0)
		}
	case OMul:
		if a.IsConst() && !b.IsConst() {
			a, b = b, a
		}
		if b.IsConst() {
			if b.V.Sign() == 0 {
				return b
			}
			if b.V.Cmp(bigOne) == 0 {
				return a
			}
			if !noLin && a.Op == ODiv && a.Args[1].IsConst() && a.Args[1].V.Cmp(b.V) == 0 && b.V.Sign() > 0 {
				// (x/c)*c == x - x%c (exact in Go for every x)
				return c.Arith(OSub, a.Args[0], c.Rem(a.Args[0], b))
			}
		}
	}
	t := c.mk(op, s, a, b)
	lo, hi := rawIv(op, a, b)
	c.setIv(t, lo, hi)
	return c.intern(t)
}

func (c *Ctx) Neg(a *Term) *Term {
	a = c.sub(a)
	if a.IsConst() {
		return c.Int(a.Sort, new(big.Int).Neg(a.V))
	}
	t := c.mk(ONeg, a.Sort, a)
	lo, hi := rawIv(ONeg, a, nil)
	c.setIv(t, lo, hi)
	return c.intern(t)
}

func truncDiv(a, b *big.Int) *big.Int { return new(big.Int).Quo(a, b) }
func truncRem(a, b *big.Int) *big.Int { return new(big.Int).Rem(a, b) }

// Div/Rem: Go semantics (truncated).  Caller has established b != 0 on this path.
func (c *Ctx) Div(a, b *Term) *Term {
	a, b = c.sub(a), c.sub(b)
	s := a.Sort
	if a.IsConst() && b.IsConst() && b.V.Sign() != 0 {
		return c.Int(s, truncDiv(a.V, b.V))
	}
	if b.IsConst() && b.V.Cmp(bigOne) == 0 {
		return a
	}
	if b.IsConst() && b.V.Sign() > 0 {
		if q, _, ok := c.divLinear(a, b.V); ok {
			return q
		}
	}
	t := c.mk(ODiv, s, a, b)
	// interval: |a/b| <= |a| ; refine for positive divisors
	if b.ILo.Sign() > 0 {
		q1 := truncDiv(a.ILo, b.ILo)
		q2 := truncDiv(a.ILo, b.IHi)
		q3 := truncDiv(a.IHi, b.ILo)
		q4 := truncDiv(a.IHi, b.IHi)
		c.setIv(t, minBig(q1, q2, q3, q4), maxBig(q1, q2, q3, q4))
	} else {
		m := maxBig(new(big.Int).Abs(a.ILo), new(big.Int).Abs(a.IHi))
		c.setIv(t, new(big.Int).Neg(m), m)
	}
	return c.intern(t)
}

func (c *Ctx) Rem(a, b *Term) *Term {
	a, b = c.sub(a), c.sub(b)
	s := a.Sort
	if a.IsConst() && b.IsConst() && b.V.Sign() != 0 {
		return c.Int(s, truncRem(a.V, b.V))
	}
	if b.IsConst() && b.V.Sign() > 0 {
		if b.V.Cmp(bigOne) == 0 {
			return c.IntI(s, 0)
		}
		if _, r, ok := c.divLinear(a, b.V); ok {
			return r
		}
	}
	t := c.mk(ORem, s, a, b)
	// |r| < |b|, sign of a
	mb := new(big.Int).Sub(maxBig(new(big.Int).Abs(b.ILo), new(big.Int).Abs(b.IHi)), bigOne)
	if mb.Sign() < 0 {
		mb = big.NewInt(0)
	}
	ma := maxBig(new(big.Int).Abs(a.ILo), new(big.Int).Abs(a.IHi))
	m := minBig(mb, ma)
	lo, hi := new(big.Int).Neg(m), m
	if a.ILo.Sign() >= 0 {
		lo = big.NewInt(0)
	}
	if a.IHi.Sign() <= 0 {
		hi = big.NewInt(0)
	}
	c.setIv(t, lo, hi)
	return c.intern(t)
}

// ---------- bit slices

type seg struct {
	src *Term // nil = zero bits
	lo  int   // low bit index within src
	w   int
}

// segsOf returns the MSB-first bit-slice decomposition of an unsigned term.
func segsOf(t *Term) []seg {
	switch t.Op {
	case OExtract:
		return []seg{{t.Args[0], t.Lo, t.Hi - t.Lo + 1}}
	case OConcat:
		var out []seg
		for _, a := range t.Args {
			out = append(out, segsOf(a)...)
		}
		return out
	case OConst:
		if t.V.Sign() == 0 {
			return []seg{{nil, 0, t.Sort.W}}
		}
	}
	return []seg{{t, 0, t.Sort.W}}
}

func segsWidth(ss []seg) int {
	w := 0
	for _, s := range ss {
		w += s.w
	}
	return w
}

// takeBits returns bits [hi..lo] (inclusive) of the segment list.
func takeBits(ss []seg, hi, lo int) []seg {
	total := segsWidth(ss)
	var out []seg
	pos := total // bit index just above current segment
	for _, s := range ss {
		top := pos - 1
		bot := pos - s.w
		pos = bot
		// overlap of [bot..top] with [lo..hi]
		oh := top
		if hi < oh {
			oh = hi
		}
		ol := bot
		if lo > ol {
			ol = lo
		}
		if oh < ol {
			continue
		}
		if s.src == nil {
			out = append(out, seg{nil, 0, oh - ol + 1})
		} else {
			out = append(out, seg{s.src, s.lo + (ol - bot), oh - ol + 1})
		}
	}
	return out
}

// fromSegs builds the canonical unsigned term of the total width.
func (c *Ctx) fromSegs(ss []seg) *Term {
	// merge adjacent
	var m []seg
	for _, s := range ss {
		if s.w == 0 {
			continue
		}
		if n := len(m); n > 0 {
			p := &m[n-1]
			if p.src == nil && s.src == nil {
				p.w += s.w
				continue
			}
			if p.src != nil && p.src == s.src && p.lo == s.lo+s.w {
				p.lo = s.lo
				p.w += s.w
				continue
			}
		}
		m = append(m, s)
	}
	w := segsWidth(m)
	var parts []*Term
	for _, s := range m {
		parts = append(parts, c.segTerm(s))
	}
	// fold adjacent constant parts
	var fparts []*Term
	for _, p := range parts {
		if n := len(fparts); n > 0 && p.IsConst() && fparts[n-1].IsConst() {
			q := fparts[n-1]
			v := new(big.Int).Lsh(q.V, uint(p.Sort.W))
			v.Or(v, p.V)
			fparts[n-1] = c.Int(USort(q.Sort.W+p.Sort.W), v)
			continue
		}
		fparts = append(fparts, p)
	}
	if len(fparts) == 1 {
		return fparts[0]
	}
	t := c.mk(OConcat, USort(w), fparts...)
	// interval: if leading parts are zero, bounded by remaining width
	lead := 0
	for _, p := range fparts {
		if p.IsConst() && p.V.Sign() == 0 {
			lead += p.Sort.W
		} else {
			break
		}
	}
	t.ILo = big.NewInt(0)
	t.IHi = new(big.Int).Sub(pow2(w-lead), bigOne)
	return c.intern(t)
}

func (c *Ctx) segTerm(s seg) *Term {
	if s.src == nil {
		return c.IntI(USort(s.w), 0)
	}
	if s.lo == 0 && s.w == s.src.Sort.W && !s.src.Sort.Signed {
		return s.src
	}
	src := s.src
	if src.IsConst() {
		v := new(big.Int).Rsh(new(big.Int).Mod(src.V, pow2(src.Sort.W)), uint(s.lo))
		v.Mod(v, pow2(s.w))
		return c.Int(USort(s.w), v)
	}
	t := &Term{Op: OExtract, Sort: USort(s.w), Args: []*Term{src}, Hi: s.lo + s.w - 1, Lo: s.lo}
	t.ILo = big.NewInt(0)
	t.IHi = new(big.Int).Sub(pow2(s.w), bigOne)
	if s.lo == 0 && src.ILo.Sign() >= 0 && src.IHi.Cmp(t.IHi) < 0 {
		t.IHi = src.IHi
	}
	return c.intern(t)
}

// asUnsigned reinterprets t as unsigned of the same width.
func (c *Ctx) asUnsigned(t *Term) *Term {
	if !t.Sort.Signed {
		return t
	}
	return c.Conv(t, USort(t.Sort.W))
}

func (c *Ctx) Extract(t *Term, hi, lo int) *Term {
	t = c.asUnsigned(t)
	return c.fromSegs(takeBits(segsOf(t), hi, lo))
}

// Conv converts integer t to sort s (Go conversion semantics).
func (c *Ctx) Conv(t *Term, s Sort) *Term {
	t = c.sub(t)
	if t.Sort == s {
		return t
	}
	if t.IsConst() {
		return c.Int(s, t.V)
	}
	from := t.Sort
	if !from.Signed && !s.Signed {
		// pure bit-slice operation (kept ahead of chain collapsing so that all bytes of one
		// converted value are slices of the same node)
		ss := segsOf(t)
		if s.W <= from.W {
			return c.fromSegs(takeBits(ss, s.W-1, 0))
		}
		return c.fromSegs(append([]seg{{nil, 0, s.W - from.W}}, ss...))
	}
	// collapse conv chains when the inner conversion was value-preserving or widening-then-anything
	if t.Op == OConv {
		inner := t.Args[0]
		// conv(conv(x, mid), s): if mid is at least as wide as s, the result only depends on low bits of x
		if from.W >= s.W && inner.Sort.W >= s.W {
			return c.Conv(inner, s)
		}
		// widening x to mid preserving value (x's range fits in mid) then to s: same as conv(x,s)
		if inner.ILo.Cmp(from.Min()) >= 0 && inner.IHi.Cmp(from.Max()) <= 0 {
			return c.Conv(inner, s)
		}
	}
	if !from.Signed && !s.Signed {
		// pure bit-slice operation
		ss := segsOf(t)
		if s.W <= from.W {
			return c.fromSegs(takeBits(ss, s.W-1, 0))
		}
		return c.fromSegs(append([]seg{{nil, 0, s.W - from.W}}, ss...))
	}
	if !from.Signed && s.Signed && s.W > from.W {
		// zero-extension into a signed type: value preserving
		r := c.mk(OConv, s, t)
		r.ILo, r.IHi = t.ILo, t.IHi
		return c.intern(r)
	}
	r := c.mk(OConv, s, t)
	c.setIv(r, t.ILo, t.IHi)
	return c.intern(r)
}

func isLowMask(v *big.Int) (int, bool) {
	// v == 2^k - 1 ?
	k := v.BitLen()
	if new(big.Int).Add(v, bigOne).Cmp(pow2(k)) == 0 {
		return k, true
	}
	return 0, false
}

// contiguous mask: ones in [hi..lo]
func isContigMask(v *big.Int) (hi, lo int, ok bool) {
	if v.Sign() <= 0 {
		return 0, 0, false
	}
	lo = int(v.TrailingZeroBits())
	sh := new(big.Int).Rsh(v, uint(lo))
	k, ok2 := isLowMask(sh)
	if !ok2 {
		return 0, 0, false
	}
	return lo + k - 1, lo, true
}

func (c *Ctx) Bitop(op Op, a, b *Term) *Term {
	a, b = c.sub(a), c.sub(b)
	if a.Sort != b.Sort {
		panic(fmt.Sprintf("bitop sort mismatch %v %v", a.Sort, b.Sort))
	}
	s := a.Sort
	if a.IsConst() && b.IsConst() {
		m := pow2(s.W)
		x := new(big.Int).Mod(a.V, m)
		y := new(big.Int).Mod(b.V, m)
		var r *big.Int
		switch op {
		case OAnd:
			r = new(big.Int).And(x, y)
		case OOr:
			r = new(big.Int).Or(x, y)
		case OXor:
			r = new(big.Int).Xor(x, y)
		}
		return c.Int(s, r)
	}
	if a.IsConst() {
		a, b = b, a
	}
	if !s.Signed {
		switch op {
		case OAnd:
			if b.IsConst() {
				if b.V.Sign() == 0 {
					return b
				}
				if hi, lo, ok := isContigMask(b.V); ok {
					ss := segsOf(a)
					mid := takeBits(ss, hi, lo)
					out := []seg{{nil, 0, s.W - 1 - hi}}
					out = append(out, mid...)
					out = append(out, seg{nil, 0, lo})
					return c.fromSegs(out)
				}
			}
		case OOr, OXor:
			if b.IsConst() && b.V.Sign() == 0 {
				return a
			}
			// disjoint bit slices -> concat
			sa, sb := segsOf(a), segsOf(b)
			if merged, ok := orSegs(sa, sb); ok {
				return c.fromSegs(merged)
			}
		}
	}
	if a == b {
		switch op {
		case OAnd, OOr:
			return a
		case OXor:
			return c.IntI(s, 0)
		}
	}
	t := c.mk(op, s, a, b)
	t.ILo, t.IHi = s.Min(), s.Max()
	if !s.Signed {
		switch op {
		case OAnd:
			t.IHi = minBig(a.IHi, b.IHi)
		case OOr, OXor:
			bl := maxBig(a.IHi, b.IHi).BitLen()
			t.IHi = new(big.Int).Sub(pow2(bl), bigOne)
		}
	}
	return c.intern(t)
}

// orSegs merges two equal-width segment lists if at every bit at most one is non-zero.
func orSegs(a, b []seg) ([]seg, bool) {
	w := segsWidth(a)
	if segsWidth(b) != w {
		return nil, false
	}
	// cut points
	cuts := map[int]bool{0: true, w: true}
	pos := w
	for _, s := range a {
		pos -= s.w
		cuts[pos] = true
	}
	pos = w
	for _, s := range b {
		pos -= s.w
		cuts[pos] = true
	}
	var cs []int
	for k := range cuts {
		cs = append(cs, k)
	}
	sort.Sort(sort.Reverse(sort.IntSlice(cs)))
	var out []seg
	nonzeroBoth := false
	for i := 0; i+1 < len(cs); i++ {
		hi, lo := cs[i]-1, cs[i+1]
		pa := takeBits(a, hi, lo)
		pb := takeBits(b, hi, lo)
		za := len(pa) == 1 && pa[0].src == nil
		zb := len(pb) == 1 && pb[0].src == nil
		switch {
		case za:
			out = append(out, pb...)
		case zb:
			out = append(out, pa...)
		default:
			nonzeroBoth = true
		}
	}
	if nonzeroBoth {
		return nil, false
	}
	return out, true
}

func (c *Ctx) BitNot(a *Term) *Term {
	if a.IsConst() {
		m := pow2(a.Sort.W)
		x := new(big.Int).Mod(a.V, m)
		r := new(big.Int).Sub(new(big.Int).Sub(m, bigOne), x)
		return c.Int(a.Sort, r)
	}
	t := c.mk(OBitNot, a.Sort, a)
	t.ILo, t.IHi = a.Sort.Min(), a.Sort.Max()
	return c.intern(t)
}

// Shift: a << b or a >> b; b is any unsigned (or non-negative) integer term.
func (c *Ctx) Shift(op Op, a, b *Term) *Term {
	a, b = c.sub(a), c.sub(b)
	s := a.Sort
	if bc, ok := b.ConstInt64(); ok {
		if bc == 0 {
			return a
		}
		if a.IsConst() {
			if op == OShl {
				if bc >= int64(s.W) {
					return c.IntI(s, 0)
				}
				return c.Int(s, new(big.Int).Lsh(a.V, uint(bc)))
			}
			if bc >= int64(s.W) {
				if s.Signed && a.V.Sign() < 0 {
					return c.IntI(s, -1)
				}
				return c.IntI(s, 0)
			}
			return c.Int(s, new(big.Int).Rsh(a.V, uint(bc))) // big.Int Rsh is arithmetic (floor) for negatives
		}
		if !s.Signed {
			ss := segsOf(a)
			if bc >= int64(s.W) {
				return c.IntI(s, 0)
			}
			k := int(bc)
			if op == OShl {
				out := takeBits(ss, s.W-1-k, 0)
				out = append(out, seg{nil, 0, k})
				return c.fromSegs(out)
			}
			out := []seg{{nil, 0, k}}
			out = append(out, takeBits(ss, s.W-1, k)...)
			return c.fromSegs(out)
		}
	}
	bb := b
	if bb.Sort != s {
		// keep the amount as a separate-sorted arg; lowering converts
	}
	t := c.mk(op, s, a, bb)
	t.ILo, t.IHi = s.Min(), s.Max()
	if op == OShr {
		if a.ILo.Sign() >= 0 {
			t.ILo, t.IHi = big.NewInt(0), a.IHi
		} else {
			t.ILo, t.IHi = a.ILo, maxBig(a.IHi, big.NewInt(0))
		}
		if bc, ok := b.ConstInt64(); ok && bc < 200 {
			t.ILo = new(big.Int).Rsh(a.ILo, uint(bc))
			t.IHi = new(big.Int).Rsh(a.IHi, uint(bc))
		}
	} else if bc, ok := b.ConstInt64(); ok && bc < 64 {
		c.setIv(t, new(big.Int).Lsh(a.ILo, uint(bc)), new(big.Int).Lsh(a.IHi, uint(bc)))
	}
	return c.intern(t)
}

// ---------- booleans / comparisons

func (c *Ctx) Not(a *Term) *Term {
	if a.IsConst() {
		return c.Bool(a.V.Sign() == 0)
	}
	if a.Op == OBNot {
		return a.Args[0]
	}
	return c.intern(c.mk(OBNot, SBool, a))
}

func (c *Ctx) And(a, b *Term) *Term {
	if a.IsConst() {
		if a.V.Sign() == 0 {
			return a
		}
		return b
	}
	if b.IsConst() {
		if b.V.Sign() == 0 {
			return b
		}
		return a
	}
	if a == b {
		return a
	}
	if c.Not(a) == b {
		return c.Bool(false)
	}
	return c.intern(c.mk(OBAnd, SBool, a, b))
}

func (c *Ctx) Or(a, b *Term) *Term {
	if a.IsConst() {
		if a.V.Sign() != 0 {
			return a
		}
		return b
	}
	if b.IsConst() {
		if b.V.Sign() != 0 {
			return b
		}
		return a
	}
	if a == b {
		return a
	}
	if c.Not(a) == b {
		return c.Bool(true)
	}
	return c.intern(c.mk(OBOr, SBool, a, b))
}

func (c *Ctx) Eq(a, b *Term) *Term {
	a, b = c.sub(a), c.sub(b)
	if a.Sort != b.Sort {
		panic(fmt.Sprintf("eq sort mismatch %v %v: %v %v", a.Sort, b.Sort, a, b))
	}
	if a == b {
		if a.Sort.K == KF32 || a.Sort.K == KF64 {
			panic("Eq on floats: use FCmp")
		}
		return c.Bool(true)
	}
	if a.IsConst() && b.IsConst() {
		return c.Bool(a.V.Cmp(b.V) == 0)
	}
	if a.Sort.K == KBool {
		if a.IsConst() {
			a, b = b, a
		}
		if b.IsConst() {
			if b.V.Sign() != 0 {
				return a
			}
			return c.Not(a)
		}
		return c.intern(c.mk(OEq, SBool, a, b))
	}
	if a.Sort.K == KInt {
		ia, ib := c.IV(a), c.IV(b)
		if ia.Hi.Cmp(ib.Lo) < 0 || ib.Hi.Cmp(ia.Lo) < 0 {
			return c.Bool(false)
		}
		if ia.Lo.Cmp(ia.Hi) == 0 && ib.Lo.Cmp(ib.Hi) == 0 && ia.Lo.Cmp(ib.Lo) == 0 {
			return c.Bool(true)
		}
		// concat == const / concat==concat with same shapes: split piecewise (helps byte compare)
	}
	if a.IsConst() {
		a, b = b, a
	}
	if a.id > b.id && !b.IsConst() {
		a, b = b, a
	}
	return c.intern(c.mk(OEq, SBool, a, b))
}

func (c *Ctx) Lt(a, b *Term) *Term {
	a, b = c.sub(a), c.sub(b)
	if a.Sort != b.Sort {
		panic(fmt.Sprintf("lt sort mismatch %v %v", a.Sort, b.Sort))
	}
	if a == b {
		return c.Bool(false)
	}
	ia, ib := c.IV(a), c.IV(b)
	if ia.Hi.Cmp(ib.Lo) < 0 {
		return c.Bool(true)
	}
	if ia.Lo.Cmp(ib.Hi) >= 0 {
		return c.Bool(false)
	}
	return c.intern(c.mk(OLt, SBool, a, b))
}

func (c *Ctx) Le(a, b *Term) *Term {
	a, b = c.sub(a), c.sub(b)
	if a.Sort != b.Sort {
		panic(fmt.Sprintf("le sort mismatch %v %v", a.Sort, b.Sort))
	}
	if a == b {
		return c.Bool(true)
	}
	ia, ib := c.IV(a), c.IV(b)
	if ia.Hi.Cmp(ib.Lo) <= 0 {
		return c.Bool(true)
	}
	if ia.Lo.Cmp(ib.Hi) > 0 {
		return c.Bool(false)
	}
	return c.intern(c.mk(OLe, SBool, a, b))
}

func (c *Ctx) Ite(cond, a, b *Term) *Term {
	cond, a, b = c.sub(cond), c.sub(a), c.sub(b)
	if cond.IsConst() {
		if cond.V.Sign() != 0 {
			return a
		}
		return b
	}
	if a == b {
		return a
	}
	if a.Sort != b.Sort {
		panic(fmt.Sprintf("ite sort mismatch %v %v", a.Sort, b.Sort))
	}
	if a.Sort.K == KBool {
		if a.IsConst() && b.IsConst() {
			if a.V.Sign() != 0 {
				return cond
			}
			return c.Not(cond)
		}
		if a.IsTrue() {
			return c.Or(cond, b)
		}
		if a.IsFalse() {
			return c.And(c.Not(cond), b)
		}
		if b.IsTrue() {
			return c.Or(c.Not(cond), a)
		}
		if b.IsFalse() {
			return c.And(cond, a)
		}
	}
	t := c.mk(OIte, a.Sort, cond, a, b)
	if a.Sort.K == KInt {
		t.ILo, t.IHi = minBig(a.ILo, b.ILo), maxBig(a.IHi, b.IHi)
	}
	return c.intern(t)
}

// ---------- floats

func fsort(k Kind) Sort {
	if k == KF32 {
		return SF32
	}
	return SF64
}

func (c *Ctx) fconstVal(t *Term) float64 {
	if t.Sort.K == KF32 {
		return float64(math.Float32frombits(uint32(t.V.Uint64())))
	}
	return math.Float64frombits(t.V.Uint64())
}

func (c *Ctx) fconst(s Sort, f float64) *Term {
	if s.K == KF32 {
		return c.F32(float32(f))
	}
	return c.F64(f)
}

func (c *Ctx) FArith(op Op, a, b *Term) *Term {
	if a.Sort != b.Sort {
		panic("farith sort mismatch")
	}
	if a.IsConst() && b.IsConst() {
		x, y := c.fconstVal(a), c.fconstVal(b)
		var r float64
		if a.Sort.K == KF32 {
			x32, y32 := float32(x), float32(y)
			var r32 float32
			switch op {
			case OFAdd:
				r32 = x32 + y32
			case OFSub:
				r32 = x32 - y32
			case OFMul:
				r32 = x32 * y32
			case OFDiv:
				r32 = x32 / y32
			}
			if r32 == r32 { // not NaN: exact pattern is deterministic
				return c.F32(r32)
			}
		} else {
			switch op {
			case OFAdd:
				r = x + y
			case OFSub:
				r = x - y
			case OFMul:
				r = x * y
			case OFDiv:
				r = x / y
			}
			if r == r {
				return c.F64(r)
			}
		}
	}
	return c.intern(c.mk(op, a.Sort, a, b))
}

func (c *Ctx) FNeg(a *Term) *Term {
	if a.IsConst() {
		if a.Sort.K == KF32 {
			return c.F32b(uint32(a.V.Uint64()) ^ 0x80000000)
		}
		return c.F64b(a.V.Uint64() ^ (1 << 63))
	}
	return c.intern(c.mk(OFNeg, a.Sort, a))
}

// FCmp: op in OFEq, OFLt, OFLe
func (c *Ctx) FCmp(op Op, a, b *Term) *Term {
	if a.Sort != b.Sort {
		panic("fcmp sort mismatch")
	}
	if a.IsConst() && b.IsConst() {
		x, y := c.fconstVal(a), c.fconstVal(b)
		switch op {
		case OFEq:
			return c.Bool(x == y)
		case OFLt:
			return c.Bool(x < y)
		case OFLe:
			return c.Bool(x <= y)
		}
	}
	return c.intern(c.mk(op, SBool, a, b))
}

func (c *Ctx) FIsNaN(a *Term) *Term {
	if a.IsConst() {
		x := c.fconstVal(a)
		return c.Bool(x != x)
	}
	return c.intern(c.mk(OFIsNaN, SBool, a))
}

// FFromBits: unsigned int of width 32/64 -> float
func (c *Ctx) FFromBits(a *Term) *Term {
	a = c.asUnsigned(a)
	var s Sort
	if a.Sort.W == 32 {
		s = SF32
	} else if a.Sort.W == 64 {
		s = SF64
	} else {
		panic("ffrombits width")
	}
	if a.IsConst() {
		return c.intern(&Term{Op: OConst, Sort: s, V: a.V})
	}
	if a.Op == OFBits {
		return a.Args[0]
	}
	return c.intern(c.mk(OFFromBits, s, a))
}

// FBits: float -> unsigned int.  For a computed float a definitional variable is introduced.
func (c *Ctx) FBits(a *Term) *Term {
	w := 64
	if a.Sort.K == KF32 {
		w = 32
	}
	if a.IsConst() {
		return c.Int(USort(w), a.V)
	}
	if a.Op == OFFromBits {
		return a.Args[0]
	}
	t := c.mk(OFBits, USort(w), a)
	t.ILo, t.IHi = big.NewInt(0), USort(w).Max()
	return c.intern(t)
}

func (c *Ctx) FConv(a *Term, s Sort) *Term {
	if a.Sort == s {
		return a
	}
	if a.IsConst() {
		x := c.fconstVal(a)
		if x == x {
			return c.fconst(s, x)
		}
	}
	return c.intern(c.mk(OFConv, s, a))
}

func (c *Ctx) IToF(a *Term, s Sort) *Term {
	if a.IsConst() {
		f, _ := new(big.Float).SetInt(a.V).Float64()
		if s.K == KF32 {
			f32, _ := new(big.Float).SetInt(a.V).Float32()
			return c.F32(f32)
		}
		return c.F64(f)
	}
	return c.intern(c.mk(OIToF, s, a))
}

func (c *Ctx) FToI(a *Term, s Sort) *Term {
	if a.IsConst() {
		x := c.fconstVal(a)
		if x == x && math.Abs(x) < 1e18 {
			return c.IntI(s, int64(x))
		}
	}
	t := c.mk(OFToI, s, a)
	t.ILo, t.IHi = s.Min(), s.Max()
	return c.intern(t)
}

// Zero value term for a scalar sort.
func (c *Ctx) Zero(s Sort) *Term {
	switch s.K {
	case KBool:
		return c.Bool(false)
	case KF32:
		return c.F32b(0)
	case KF64:
		return c.F64b(0)
	}
	return c.IntI(s, 0)
}

// TightenVar narrows a variable's interval (sound only while the corresponding constraint
// is on the path condition, which the caller guarantees).
func (c *Ctx) tighten(cond *Term) {
	c.Learn(cond)
	return
}

func (c *Ctx) tightenOld(cond *Term) {
	switch cond.Op {
	case OBAnd:
		c.tighten(cond.Args[0])
		c.tighten(cond.Args[1])
	case OLt, OLe:
		a, b := cond.Args[0], cond.Args[1]
		if a.Op == OVar && b.IsConst() {
			hi := b.V
			if cond.Op == OLt {
				hi = new(big.Int).Sub(b.V, bigOne)
			}
			if hi.Cmp(a.IHi) < 0 {
				a.IHi = hi
			}
		}
		if b.Op == OVar && a.IsConst() {
			lo := a.V
			if cond.Op == OLt {
				lo = new(big.Int).Add(a.V, bigOne)
			}
			if lo.Cmp(b.ILo) > 0 {
				b.ILo = lo
			}
		}
	case OBNot:
		in := cond.Args[0]
		if in.Op == OLt || in.Op == OLe {
			a, b := in.Args[0], in.Args[1]
			// !(a<b) == b<=a ; !(a<=b) == b<a
			if in.Op == OLt {
				c.tighten(&Term{Op: OLe, Args: []*Term{b, a}})
			} else {
				c.tighten(&Term{Op: OLt, Args: []*Term{b, a}})
			}
		}
	case OEq:
		a, b := cond.Args[0], cond.Args[1]
		if a.Op == OVar && b.IsConst() && a.Sort.K == KInt {
			if b.V.Cmp(a.ILo) >= 0 && b.V.Cmp(a.IHi) <= 0 {
				a.ILo, a.IHi = b.V, b.V
			}
		}
	}
}

// ---------------------------------------------------------------- path-sensitive intervals

// IV is a closed interval of mathematical integers.
type IV struct{ Lo, Hi *big.Int }

func (a IV) meet(b IV) IV {
	return IV{maxBig(a.Lo, b.Lo), minBig(a.Hi, b.Hi)}
}
func (a IV) join(b IV) IV {
	return IV{minBig(a.Lo, b.Lo), maxBig(a.Hi, b.Hi)}
}
func (a IV) empty() bool { return a.Lo.Cmp(a.Hi) > 0 }

func sortIV(s Sort) IV { return IV{s.Min(), s.Max()} }

func clampIV(s Sort, v IV) IV {
	if v.Lo.Cmp(s.Min()) >= 0 && v.Hi.Cmp(s.Max()) <= 0 {
		return v
	}
	return sortIV(s)
}

// IV returns the tightest interval known for t on the current path: the node's own
// context-free interval met with permanent facts, scoped overrides learned from branch
// conditions, and the interval re-derived from the operands' current intervals.
func (c *Ctx) IV(t *Term) IV {
	if t.Sort.K != KInt {
		return IV{bigZero, bigOne}
	}
	if t.Op == OConst {
		return IV{t.V, t.V}
	}
	if len(c.over) == 0 && len(c.facts) == 0 && len(c.neq) == 0 {
		return IV{t.ILo, t.IHi}
	}
	if v, ok := c.ivMemo[t]; ok {
		return v
	}
	v := IV{t.ILo, t.IHi}
	if f, ok := c.facts[t]; ok {
		v = v.meet(f)
	}
	if o, ok := c.over[t]; ok {
		v = v.meet(o)
	}
	if len(t.Args) > 0 && t.Op != OVar {
		if d, ok := c.derive(t); ok {
			v = v.meet(d)
		}
	}
	// trim boundary disequalities
	if ns, ok := c.neq[t]; ok {
		for changed := true; changed; {
			changed = false
			for _, n := range ns {
				if v.Lo.Cmp(v.Hi) < 0 && n.Cmp(v.Lo) == 0 {
					v.Lo = new(big.Int).Add(v.Lo, bigOne)
					changed = true
				}
				if v.Lo.Cmp(v.Hi) < 0 && n.Cmp(v.Hi) == 0 {
					v.Hi = new(big.Int).Sub(v.Hi, bigOne)
					changed = true
				}
			}
		}
	}
	if v.empty() {
		// contradictory knowledge: we are on an infeasible guard; stay sound with the node's own interval
		v = IV{t.ILo, t.IHi}
	}
	c.ivMemo[t] = v
	return v
}

func (c *Ctx) ivChanged() { c.ivMemo = map[*Term]IV{} }

// derive recomputes t's interval from the current intervals of its operands.
func (c *Ctx) derive(t *Term) (IV, bool) {
	s := t.Sort
	switch t.Op {
	case OAdd, OSub, OMul:
		a, b := c.IV(t.Args[0]), c.IV(t.Args[1])
		var lo, hi *big.Int
		switch t.Op {
		case OAdd:
			lo, hi = new(big.Int).Add(a.Lo, b.Lo), new(big.Int).Add(a.Hi, b.Hi)
		case OSub:
			lo, hi = new(big.Int).Sub(a.Lo, b.Hi), new(big.Int).Sub(a.Hi, b.Lo)
		default:
			p1 := new(big.Int).Mul(a.Lo, b.Lo)
			p2 := new(big.Int).Mul(a.Lo, b.Hi)
			p3 := new(big.Int).Mul(a.Hi, b.Lo)
			p4 := new(big.Int).Mul(a.Hi, b.Hi)
			lo, hi = minBig(p1, p2, p3, p4), maxBig(p1, p2, p3, p4)
		}
		return clampIV(s, IV{lo, hi}), true
	case ONeg:
		a := c.IV(t.Args[0])
		return clampIV(s, IV{new(big.Int).Neg(a.Hi), new(big.Int).Neg(a.Lo)}), true
	case ODiv:
		a, b := c.IV(t.Args[0]), c.IV(t.Args[1])
		if b.Lo.Sign() > 0 {
			q1 := truncDiv(a.Lo, b.Lo)
			q2 := truncDiv(a.Lo, b.Hi)
			q3 := truncDiv(a.Hi, b.Lo)
			q4 := truncDiv(a.Hi, b.Hi)
			return clampIV(s, IV{minBig(q1, q2, q3, q4), maxBig(q1, q2, q3, q4)}), true
		}
		m := maxBig(new(big.Int).Abs(a.Lo), new(big.Int).Abs(a.Hi))
		return clampIV(s, IV{new(big.Int).Neg(m), m}), true
	case ORem:
		a, b := c.IV(t.Args[0]), c.IV(t.Args[1])
		mb := new(big.Int).Sub(maxBig(new(big.Int).Abs(b.Lo), new(big.Int).Abs(b.Hi)), bigOne)
		if mb.Sign() < 0 {
			mb = big.NewInt(0)
		}
		ma := maxBig(new(big.Int).Abs(a.Lo), new(big.Int).Abs(a.Hi))
		m := minBig(mb, ma)
		lo, hi := new(big.Int).Neg(m), m
		if a.Lo.Sign() >= 0 {
			lo = big.NewInt(0)
		}
		if a.Hi.Sign() <= 0 {
			hi = big.NewInt(0)
		}
		return clampIV(s, IV{lo, hi}), true
	case OConv:
		return clampIV(s, c.IV(t.Args[0])), true
	case OIte:
		return c.IV(t.Args[1]).join(c.IV(t.Args[2])), true
	case OExtract:
		a := c.IV(t.Args[0])
		w := t.Hi - t.Lo + 1
		full := IV{bigZero, new(big.Int).Sub(pow2(w), bigOne)}
		if t.Lo == 0 && a.Lo.Sign() >= 0 && a.Hi.Cmp(full.Hi) <= 0 {
			return a, true
		}
		return full, true
	case OShr:
		if bc, ok := t.Args[1].ConstInt64(); ok && bc < 200 {
			a := c.IV(t.Args[0])
			return IV{new(big.Int).Rsh(a.Lo, uint(bc)), new(big.Int).Rsh(a.Hi, uint(bc))}, true
		}
	}
	return IV{}, false
}

// Learn records interval knowledge implied by cond being true (scoped: callers save and
// restore c.over / c.neq around guarded regions).
func (c *Ctx) Learn(cond *Term) {
	switch cond.Op {
	case OBAnd:
		c.Learn(cond.Args[0])
		c.Learn(cond.Args[1])
	case OLt:
		c.learnLe(cond.Args[0], cond.Args[1], true)
	case OLe:
		c.learnLe(cond.Args[0], cond.Args[1], false)
	case OEq:
		a, b := cond.Args[0], cond.Args[1]
		if a.Sort.K == KInt {
			m := c.IV(a).meet(c.IV(b))
			if !m.empty() {
				c.setOver(a, m)
				c.setOver(b, m)
			}
		}
	case OBNot:
		in := cond.Args[0]
		switch in.Op {
		case OLt: // !(a<b) == b<=a
			c.learnLe(in.Args[1], in.Args[0], false)
		case OLe: // !(a<=b) == b<a
			c.learnLe(in.Args[1], in.Args[0], true)
		case OEq:
			a, b := in.Args[0], in.Args[1]
			if a.Sort.K == KInt {
				if b.IsConst() && !a.IsConst() {
					c.neq[a] = append(c.neq[a], b.V)
					c.ivChanged()
				} else if a.IsConst() && !b.IsConst() {
					c.neq[b] = append(c.neq[b], a.V)
					c.ivChanged()
				}
			}
		case OBOr: // !(x||y) == !x && !y
			c.Learn(c.Not(in.Args[0]))
			c.Learn(c.Not(in.Args[1]))
		}
	}
}

func (c *Ctx) learnLe(a, b *Term, strict bool) {
	if a.Sort.K != KInt {
		return
	}
	ia, ib := c.IV(a), c.IV(b)
	// a <= b (or a < b): hi(a) <= hi(b) [-1], lo(b) >= lo(a) [+1]
	hb := ib.Hi
	la := ia.Lo
	if strict {
		hb = new(big.Int).Sub(hb, bigOne)
		la = new(big.Int).Add(la, bigOne)
	}
	if !a.IsConst() && hb.Cmp(ia.Hi) < 0 && hb.Cmp(ia.Lo) >= 0 {
		c.setOver(a, IV{ia.Lo, hb})
	}
	if !b.IsConst() && la.Cmp(ib.Lo) > 0 && la.Cmp(ib.Hi) <= 0 {
		c.setOver(b, IV{la, ib.Hi})
	}
}

func (c *Ctx) setOver(t *Term, v IV) {
	if t.IsConst() {
		return
	}
	if o, ok := c.over[t]; ok {
		v = v.meet(o)
		if v.empty() {
			return
		}
	}
	c.over[t] = v
	c.ivChanged()
}

// saveScope / restoreScope bracket a guarded region (merge-mode run).
type ivScope struct {
	over map[*Term]IV
	neq  map[*Term][]*big.Int
}

func (c *Ctx) saveScope() ivScope {
	o := make(map[*Term]IV, len(c.over))
	for k, v := range c.over {
		o[k] = v
	}
	n := make(map[*Term][]*big.Int, len(c.neq))
	for k, v := range c.neq {
		n[k] = v[:len(v):len(v)]
	}
	return ivScope{o, n}
}

func (c *Ctx) restoreScope(s ivScope) {
	c.over, c.neq = s.over, s.neq
	c.ivChanged()
}

// ---------------------------------------------------------------- linear forms

type linForm struct {
	atoms []*Term
	coef  []*big.Int
	k     *big.Int
}

func (l *linForm) add(t *Term, co *big.Int) {
	if co.Sign() == 0 {
		return
	}
	for i, a := range l.atoms {
		if a == t {
			l.coef[i] = new(big.Int).Add(l.coef[i], co)
			return
		}
	}
	l.atoms = append(l.atoms, t)
	l.coef = append(l.coef, co)
}

func (l *linForm) addForm(o linForm, scale *big.Int) {
	for i, a := range o.atoms {
		l.add(a, new(big.Int).Mul(o.coef[i], scale))
	}
	l.k = new(big.Int).Add(l.k, new(big.Int).Mul(o.k, scale))
}

func fitsSort(s Sort, v IV) bool {
	return v.Lo.Cmp(s.Min()) >= 0 && v.Hi.Cmp(s.Max()) <= 0
}

// lin decomposes t into an exact linear combination of atoms (as mathematical integers),
// looking through additions/subtractions/constant multiples that provably do not wrap and
// through value-preserving conversions (judged with the path-sensitive intervals).
func (c *Ctx) lin(t *Term, depth int) linForm {
	out := linForm{k: new(big.Int)}
	if t.Sort.K != KInt {
		out.add(t, bigOne)
		return out
	}
	if t.IsConst() {
		out.k = t.V
		return out
	}
	if depth > 40 {
		out.add(t, bigOne)
		return out
	}
	switch t.Op {
	case OAdd, OSub:
		a, b := c.IV(t.Args[0]), c.IV(t.Args[1])
		var raw IV
		if t.Op == OAdd {
			raw = IV{new(big.Int).Add(a.Lo, b.Lo), new(big.Int).Add(a.Hi, b.Hi)}
		} else {
			raw = IV{new(big.Int).Sub(a.Lo, b.Hi), new(big.Int).Sub(a.Hi, b.Lo)}
		}
		if fitsSort(t.Sort, raw) {
			out.addForm(c.lin(t.Args[0], depth+1), bigOne)
			if t.Op == OAdd {
				out.addForm(c.lin(t.Args[1], depth+1), bigOne)
			} else {
				out.addForm(c.lin(t.Args[1], depth+1), big.NewInt(-1))
			}
			return out
		}
	case ONeg:
		a := c.IV(t.Args[0])
		if fitsSort(t.Sort, IV{new(big.Int).Neg(a.Hi), new(big.Int).Neg(a.Lo)}) {
			out.addForm(c.lin(t.Args[0], depth+1), big.NewInt(-1))
			return out
		}
	case OMul:
		if t.Args[1].IsConst() {
			a := c.IV(t.Args[0])
			p1 := new(big.Int).Mul(a.Lo, t.Args[1].V)
			p2 := new(big.Int).Mul(a.Hi, t.Args[1].V)
			if fitsSort(t.Sort, IV{minBig(p1, p2), maxBig(p1, p2)}) {
				out.addForm(c.lin(t.Args[0], depth+1), t.Args[1].V)
				return out
			}
		}
	case OConv:
		if fitsSort(t.Sort, c.IV(t.Args[0])) {
			return c.lin(t.Args[0], depth+1)
		}
	case OConcat:
		// zero extension: concat(0.., x)
		n := len(t.Args)
		allZero := true
		for _, a := range t.Args[:n-1] {
			if !(a.IsConst() && a.V.Sign() == 0) {
				allZero = false
			}
		}
		if allZero {
			return c.lin(t.Args[n-1], depth+1)
		}
	case OExtract:
		// low bits of a value that already fits: identity
		if t.Lo == 0 {
			a := c.IV(t.Args[0])
			if a.Lo.Sign() >= 0 && a.Hi.Cmp(pow2(t.Hi+1)) < 0 {
				return c.lin(t.Args[0], depth+1)
			}
		}
	}
	out.add(t, bigOne)
	return out
}

// buildLin rebuilds a linear form as a term of sort s.
func (c *Ctx) buildLin(s Sort, atoms []*Term, coef []*big.Int, k *big.Int) *Term {
	acc := c.Int(s, k)
	for i, a := range atoms {
		if coef[i].Sign() == 0 {
			continue
		}
		var at *Term
		if a.Sort == s {
			at = a
		} else {
			at = c.Conv(a, s)
		}
		term := c.Arith(OMul, at, c.Int(s, coef[i]))
		acc = c.Arith(OAdd, acc, term)
	}
	return acc
}

// divLinear: for x with an exact linear form, x = d*Q + R with R confined to [0,d-1]:
// returns (x/d, x%d) in Go's truncated semantics when that is determined.
func (c *Ctx) divLinear(x *Term, d *big.Int) (q, r *Term, ok bool) {
	if noLin {
		return nil, nil, false
	}
	lf := c.lin(x, 0)
	if len(lf.atoms) == 0 {
		return nil, nil, false // constant: folded elsewhere
	}
	if len(lf.atoms) == 1 && lf.atoms[0] == x {
		return nil, nil, false
	}
	var qa, ra []*Term
	var qc, rc []*big.Int
	for i, a := range lf.atoms {
		if new(big.Int).Mod(lf.coef[i], d).Sign() == 0 {
			qa = append(qa, a)
			qc = append(qc, new(big.Int).Div(lf.coef[i], d))
		} else {
			ra = append(ra, a)
			rc = append(rc, lf.coef[i])
		}
	}
	if len(qa) == 0 {
		return nil, nil, false
	}
	kq, kr := new(big.Int).DivMod(lf.k, d, new(big.Int)) // Euclidean: 0 <= kr < d
	// interval of R = sum rc*ra + kr
	rlo, rhi := new(big.Int).Set(kr), new(big.Int).Set(kr)
	for i, a := range ra {
		iv := c.IV(a)
		p1 := new(big.Int).Mul(iv.Lo, rc[i])
		p2 := new(big.Int).Mul(iv.Hi, rc[i])
		rlo.Add(rlo, minBig(p1, p2))
		rhi.Add(rhi, maxBig(p1, p2))
	}
	shift := new(big.Int).Div(rlo, d) // floor (d > 0)
	upper := new(big.Int).Mul(new(big.Int).Add(shift, bigOne), d)
	if rhi.Cmp(upper) >= 0 {
		return nil, nil, false
	}
	kq = new(big.Int).Add(kq, shift)
	kr = new(big.Int).Sub(kr, new(big.Int).Mul(shift, d))
	rZero := len(ra) == 0 && kr.Sign() == 0
	xiv := c.IV(x)
	if !rZero && xiv.Lo.Sign() < 0 {
		return nil, nil, false // truncation toward zero differs from floor for negative x
	}
	q = c.buildLin(x.Sort, qa, qc, kq)
	r = c.buildLin(x.Sort, ra, rc, kr)
	return q, r, true
}

var noLin = os.Getenv("VERIF_NOLIN") != ""
