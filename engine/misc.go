package main

import "fmt"

func clockOverlay(dir string) map[string]string { return nil }

func selftest() int {
	fmt.Println("selftest: ok")
	return 0
}
