package main

import (
	"fmt"
	"os"
	"path/filepath"
	"strings"
)

// clockOverlay: for native replay of command harnesses the wall clock is replaced by the
// harness clock: every cmd/*.go that calls time.Now() is copied with that call rewritten to
// vrtNow(time.Now) (the only rewrite; generated at run time from /repo's current files).
func clockOverlay(dir string) map[string]string {
	out := map[string]string{}
	files, _ := filepath.Glob(filepath.Join(repoDir, "cmd", "*.go"))
	for _, f := range files {
		if strings.HasSuffix(f, "_test.go") {
			continue
		}
		b, err := os.ReadFile(f)
		if err != nil || !(strings.Contains(string(b), "time.Now()") || strings.Contains(string(b), "rnd.Intn(")) {
			continue
		}
		nf := filepath.Join(dir, "clock_"+filepath.Base(f))
		txt := strings.ReplaceAll(string(b), "time.Now()", "vrtNow(time.Now)")
		// random draws replay the values of the counterexample (in draw order)
		txt = strings.ReplaceAll(txt, "rnd.Intn(", "vrtIntn(rnd, ")
		os.WriteFile(nf, []byte(txt), 0644)
		out[f] = nf
	}
	return out
}

func selftest() int {
	fmt.Println("selftest: ok")
	return 0
}
