package main

// Machine: one symbolic execution of one path of a harness (stateless search: a path is
// identified by its decision vector and re-executed from the start).

import (
	"fmt"
	"go/types"
	"math/big"
	"sort"
	"strings"
	"sync"
	"time"

	"golang.org/x/tools/go/ssa"
)

type Shared struct {
	mu             sync.Mutex
	mergeable      map[*ssa.Function]bool
	mergeableInner map[*ssa.Function]bool
}

type Decision struct {
	Val    int
	Forced bool
}

type Violation struct {
	Harness   string            `json:"harness"`
	Label     string            `json:"label"`
	Kind      string            `json:"kind"` // assert | panic
	Where     string            `json:"where"`
	Model     map[string]string `json:"model"`
	Choices   map[string]int    `json:"choices"`
	Decisions []int             `json:"decisions"`
	Known     string            `json:"known,omitempty"`
}

type Sample struct {
	Harness string `json:"harness"`
	Label   string `json:"label"`
	Verdict string `json:"verdict"`
	Nodes   int    `json:"formula_nodes"`
	Ms      int64  `json:"solver_ms"`
	Path    string `json:"path_choices"`
}

type PathResult struct {
	Kind        string // done, infeasible, panic, unsupported, unwind, steps, violation-stop
	Msg         string
	Forks       [][]Decision
	Violations  []Violation
	Obligations int
	Discharged  int
	Trivial     int
	Reach       map[string]bool
	Branches    int
	Samples     []Sample
	Fns         map[*ssa.Function]bool
	Incon       []string
	NMerged     int
	Stubs       map[string]int
	Known       map[string]int
}

type Machine struct {
	prog    *ssa.Program
	sizes   types.Sizes
	sh      *Shared
	ctx     *Ctx
	em      *Emitter
	sol     *Solver
	cfg     *HarnessCfg
	harness string

	pc        []*Term
	decisions []Decision
	dpos      int
	forks     [][]Decision
	choices   map[string]int

	globals     map[*ssa.Global]Loc
	fr          *Frame
	depth       int
	frameSerial int
	steps       int
	maxSteps    int
	merge       *mergeCtx
	fns         map[*ssa.Function]bool
	nMerged     int

	allocBytes  int64
	allocLimit  int64
	trackStores func(Loc)

	env *Env
	res *PathResult

	knownActive map[string]*Term // known-finding predicates currently asserted as excluded
	knownKeys   map[string]bool
	tier        string
	fresh       int
}

type HarnessCfg struct {
	Lowering  Lowering
	TimeoutMs int
	MaxSteps  int
	MaxPaths  int
}

func NewMachine(prog *ssa.Program, sh *Shared, sol *Solver, cfg *HarnessCfg, harness string) *Machine {
	m := &Machine{prog: prog, sh: sh, sol: sol, cfg: cfg, harness: harness}
	m.sizes = types.SizesFor("gc", "amd64")
	m.ctx = NewCtx()
	m.em = NewEmitter(cfg.Lowering)
	m.globals = map[*ssa.Global]Loc{}
	m.fns = map[*ssa.Function]bool{}
	m.choices = map[string]int{}
	m.maxSteps = cfg.MaxSteps
	if m.maxSteps == 0 {
		m.maxSteps = 3_000_000
	}
	m.env = NewEnv(m)
	m.res = &PathResult{Reach: map[string]bool{}, Stubs: map[string]int{}, Known: map[string]int{}}
	m.knownActive = map[string]*Term{}
	return m
}

// RunPath executes the harness along the given decision prefix.
func (m *Machine) RunPath(fn *ssa.Function, prefix []Decision, inits []*ssa.Function) (res *PathResult) {
	m.decisions = append([]Decision(nil), prefix...)
	res = m.res
	m.sol.Push()
	defer func() {
		m.sol.Pop()
		res.Forks = m.forks
		res.Fns = m.fns
		res.NMerged = m.nMerged
		if r := recover(); r != nil {
			switch e := r.(type) {
			case pathEnd:
				res.Kind, res.Msg = e.kind, e.msg
			case mergeAbort:
				res.Kind, res.Msg = "unsupported", "merge abort escaped: "+e.why
			default:
				panic(r)
			}
		}
	}()
	for _, init := range inits {
		m.runFunction(init, nil, nil)
	}
	m.runFunction(fn, nil, nil)
	res.Kind = "done"
	return res
}

// ------------------------------------------------------------ path condition & solver

func (m *Machine) assertPC(c *Term) {
	if c.IsTrue() {
		return
	}
	m.pc = append(m.pc, c)
	m.ctx.tighten(c)
	n := m.em.Name(c)
	m.sol.Assert(m.em.take(), n)
}

// check: is PC ∧ extra satisfiable?
func (m *Machine) check(extra *Term, wantModel bool) (SatResult, map[string]string) {
	if extra.IsFalse() {
		return RUnsat, nil
	}
	n := m.em.Name(extra)
	var vars []string
	if wantModel {
		for _, v := range m.ctx.Vars {
			if _, ok := m.em.names[v]; ok {
				vars = append(vars, m.em.names[v])
			}
		}
	}
	r, model, errs := m.sol.Check(m.em.take(), []string{n}, wantModel, vars)
	if errs != "" {
		m.res.Incon = append(m.res.Incon, "solver error: "+errs)
	}
	if r == RSat && wantModel {
		out := map[string]string{}
		for _, v := range m.ctx.Vars {
			sn, ok := m.em.names[v]
			if !ok {
				// variable never reached the solver: unconstrained, pick zero
				out[v.Name] = "0"
				continue
			}
			if val, ok := model[sn]; ok {
				if bi, ok := parseSMTInt(val); ok {
					if v.Sort.K == KInt {
						bi = wrapBig(bi, v.Sort)
					}
					out[v.Name] = bi.String()
				} else {
					out[v.Name] = val
				}
			}
		}
		return r, out
	}
	return r, nil
}

func (m *Machine) recordDecision(val int, forced bool) {
	m.decisions = append(m.decisions, Decision{val, forced})
	m.dpos = len(m.decisions)
}

// branch decides a boolean condition.
func (m *Machine) branch(c *Term) bool {
	if c.IsConst() {
		return c.V.Sign() != 0
	}
	if mc := m.merge; mc != nil {
		var d int
		if mc.dpos < len(mc.dec) {
			d = mc.dec[mc.dpos]
		} else {
			mc.dec = append(mc.dec, 0)
		}
		mc.dpos++
		if d == 0 {
			mc.guard = m.ctx.And(mc.guard, c)
			return true
		}
		mc.guard = m.ctx.And(mc.guard, m.ctx.Not(c))
		return false
	}
	m.res.Branches++
	if m.dpos < len(m.decisions) {
		d := m.decisions[m.dpos]
		m.dpos++
		cond := c
		if d.Val == 0 {
			cond = m.ctx.Not(c)
		}
		if d.Forced {
			m.pc = append(m.pc, cond)
			m.ctx.tighten(cond)
		} else {
			m.assertPC(cond)
		}
		return d.Val == 1
	}
	rt, _ := m.check(c, false)
	if rt == RUnsat {
		m.recordDecision(0, true)
		nc := m.ctx.Not(c)
		m.pc = append(m.pc, nc)
		m.ctx.tighten(nc)
		return false
	}
	rf, _ := m.check(m.ctx.Not(c), false)
	if rf == RUnsat {
		m.recordDecision(1, true)
		m.pc = append(m.pc, c)
		m.ctx.tighten(c)
		return true
	}
	// both feasible (or unknown): fork
	alt := append(append([]Decision(nil), m.decisions...), Decision{0, false})
	m.forks = append(m.forks, alt)
	m.recordDecision(1, false)
	m.assertPC(c)
	return true
}

// chooseInt resolves term t (already known to lie in [lo,hi] on this path) to a concrete value.
func (m *Machine) chooseInt(t *Term, lo, hi int) int {
	if c, ok := t.ConstInt64(); ok {
		return int(c)
	}
	if m.merge != nil {
		panic(mergeAbort{"symbolic index/size"})
	}
	if t.ILo.IsInt64() && int(t.ILo.Int64()) > lo {
		lo = int(t.ILo.Int64())
	}
	if t.IHi.IsInt64() && int(t.IHi.Int64()) < hi {
		hi = int(t.IHi.Int64())
	}
	m.res.Branches++
	eqc := func(v int) *Term { return m.ctx.Eq(t, m.ctx.IntI(t.Sort, int64(v))) }
	if m.dpos < len(m.decisions) {
		d := m.decisions[m.dpos]
		m.dpos++
		m.assertPC(eqc(d.Val))
		return d.Val
	}
	// enumerate feasible values
	var feas []int
	if hi-lo <= 32 {
		for v := lo; v <= hi; v++ {
			r, _ := m.check(eqc(v), false)
			if r != RUnsat {
				feas = append(feas, v)
			}
		}
	} else {
		// model enumeration with blocking
		block := m.ctx.Bool(true)
		for len(feas) <= 64 {
			r, model := m.checkValue(t, block)
			if r != RSat {
				if r == RUnknown {
					m.unsupported("cannot enumerate values of symbolic index/size (solver unknown)")
				}
				break
			}
			feas = append(feas, model)
			block = m.ctx.And(block, m.ctx.Not(eqc(model)))
		}
		if len(feas) > 64 {
			panic(pathEnd{"unwind", "more than 64 feasible values for a symbolic size/index at " + m.position()})
		}
		sort.Ints(feas)
	}
	if len(feas) == 0 {
		panic(pathEnd{"infeasible", "no feasible value"})
	}
	for _, v := range feas[1:] {
		alt := append(append([]Decision(nil), m.decisions...), Decision{v, false})
		m.forks = append(m.forks, alt)
	}
	m.recordDecision(feas[0], false)
	m.assertPC(eqc(feas[0]))
	return feas[0]
}

// checkValue finds a model value for t under PC ∧ extra.
func (m *Machine) checkValue(t *Term, extra *Term) (SatResult, int) {
	probe := m.ctx.Var(fmt.Sprintf("$probe%d", m.fresh), t.Sort)
	m.fresh++
	r, model := m.check(m.ctx.And(extra, m.ctx.Eq(probe, t)), true)
	if r != RSat {
		return r, 0
	}
	bi, ok := new(big.Int).SetString(model[probe.Name], 10)
	if !ok || !bi.IsInt64() {
		return RUnknown, 0
	}
	return RSat, int(bi.Int64())
}

func (m *Machine) excludeKnown(c *Term) *Term {
	for _, k := range m.knownActive {
		c = m.ctx.And(c, m.ctx.Not(k))
	}
	return c
}

// mayPanic: cond is the condition under which the Go runtime would panic here.
func (m *Machine) mayPanic(cond *Term, what string) {
	if cond.IsFalse() {
		return
	}
	if mc := m.merge; mc != nil {
		mc.panics = append(mc.panics, guardedPanic{m.ctx.And(mc.guard, cond), what})
		return
	}
	if cond.IsTrue() {
		m.goPanic(what)
	}
	m.res.Obligations++
	t0 := time.Now()
	r, model := m.check(m.excludeKnown(cond), true)
	switch r {
	case RUnsat:
		// if known findings were excluded, the residual may still panic: keep going on !cond
		m.res.Discharged++
		if len(m.knownActive) > 0 {
			m.noteKnownHits(cond)
			rn, _ := m.check(m.ctx.Not(cond), false)
			if rn == RUnsat {
				panic(pathEnd{"known", "path ends in known finding: " + what})
			}
			m.assertPC(m.ctx.Not(cond))
		} else {
			nc := m.ctx.Not(cond)
			m.pc = append(m.pc, nc)
			m.ctx.tighten(nc)
		}
		m.sample("panic-free:"+what, "unsat", t0)
		return
	case RSat:
		m.violation("panic", "panic: "+what, model)
		m.sample("panic-free:"+what, "sat", t0)
	default:
		m.res.Incon = append(m.res.Incon, "unknown: panic condition "+what+" at "+m.position())
		m.sample("panic-free:"+what, "unknown", t0)
	}
	// continue on the non-panicking side if feasible
	rn, _ := m.check(m.ctx.Not(cond), false)
	if rn == RUnsat {
		panic(pathEnd{"panic", what})
	}
	m.assertPC(m.ctx.Not(cond))
}

func (m *Machine) goPanic(what string) {
	if mc := m.merge; mc != nil {
		mc.panics = append(mc.panics, guardedPanic{mc.guard, what})
		mc.guard = m.ctx.Bool(false)
		panic(mergeAbort{"panic in merged callee: " + what})
	}
	m.res.Obligations++
	t0 := time.Now()
	r, model := m.check(m.excludeKnown(m.ctx.Bool(true)), true)
	if r == RSat {
		m.violation("panic", "panic: "+what, model)
		m.sample("panic-free:"+what, "sat", t0)
	} else if r == RUnsat {
		m.res.Discharged++
		m.noteKnownHits(m.ctx.Bool(true))
	} else {
		m.res.Incon = append(m.res.Incon, "unknown: reached panic "+what)
	}
	panic(pathEnd{"panic", what + " at " + m.position()})
}

func (m *Machine) noteKnownHits(cond *Term) {
	for k, pred := range m.knownActive {
		r, _ := m.check(m.ctx.And(cond, pred), false)
		if r == RSat {
			m.res.Known[k]++
		}
	}
}

func (m *Machine) violation(kind, label string, model map[string]string) {
	ch := map[string]int{}
	for k, v := range m.choices {
		ch[k] = v
	}
	dec := make([]int, len(m.decisions))
	for i, d := range m.decisions {
		dec[i] = d.Val
	}
	m.res.Violations = append(m.res.Violations, Violation{Harness: m.harness, Label: label, Kind: kind, Where: m.position(), Model: model, Choices: ch, Decisions: dec})
}

func (m *Machine) sample(label, verdict string, t0 time.Time) {
	if len(m.res.Samples) >= 4 {
		return
	}
	var parts []string
	for k, v := range m.choices {
		parts = append(parts, fmt.Sprintf("%s=%d", k, v))
	}
	sort.Strings(parts)
	m.res.Samples = append(m.res.Samples, Sample{Harness: m.harness, Label: label, Verdict: verdict, Nodes: m.em.nodes, Ms: time.Since(t0).Milliseconds(), Path: strings.Join(parts, ",")})
}

// doAssert implements vrt.Assert.
func (m *Machine) doAssert(c *Term, label string) {
	m.res.Obligations++
	if c.IsTrue() {
		m.res.Discharged++
		m.res.Trivial++
		return
	}
	t0 := time.Now()
	neg := m.ctx.Not(c)
	r, model := m.check(m.excludeKnown(neg), true)
	switch r {
	case RUnsat:
		m.res.Discharged++
		m.sample(label, "unsat", t0)
		if len(m.knownActive) > 0 {
			m.noteKnownHits(neg)
		}
	case RSat:
		m.violation("assert", label, model)
		m.sample(label, "sat", t0)
	default:
		m.res.Incon = append(m.res.Incon, "unknown: assert "+label)
		m.sample(label, "unknown", t0)
	}
	// continue under the assumption that it holds
	rn, _ := m.check(c, false)
	if rn == RUnsat {
		panic(pathEnd{"violation-stop", label})
	}
	m.assertPC(c)
}

func (m *Machine) doAssume(c *Term) {
	if c.IsTrue() {
		return
	}
	if c.IsFalse() {
		panic(pathEnd{"infeasible", "assume false"})
	}
	r, _ := m.check(c, false)
	if r == RUnsat {
		panic(pathEnd{"infeasible", "assumption infeasible"})
	}
	m.assertPC(c)
}
