package main

// Machine: one symbolic execution of one path of a harness (stateless search: a path is
// identified by its decision vector and re-executed from the start).

import (
	"fmt"
	"math/big"
	"go/types"
	"sort"
	"strings"
	"sync"
	"time"

	"golang.org/x/tools/go/ssa"
)

type Shared struct {
	mu             sync.Mutex
	mergeable      map[*ssa.Function]bool
	mergeableInner map[*ssa.Function]bool
}

type Decision struct {
	Val    int
	Forced bool
}

type Violation struct {
	Harness   string            `json:"harness"`
	Label     string            `json:"label"`
	Kind      string            `json:"kind"` // assert | panic
	Where     string            `json:"where"`
	Model     map[string]string `json:"model"`
	Choices   map[string]int    `json:"choices"`
	Decisions []int             `json:"decisions"`
	Known     string            `json:"known,omitempty"`
}

type Sample struct {
	Harness string `json:"harness"`
	Label   string `json:"label"`
	Verdict string `json:"verdict"`
	Nodes   int    `json:"formula_nodes"`
	Ms      int64  `json:"solver_ms"`
	Path    string `json:"path_choices"`
}

type PathResult struct {
	Kind        string // done, infeasible, panic, unsupported, unwind, steps, violation-stop
	Msg         string
	Forks       [][]Decision
	Violations  []Violation
	Obligations int
	Discharged  int
	Trivial     int
	Reach       map[string]bool
	Branches    int
	Samples     []Sample
	Fns         map[*ssa.Function]bool
	Incon       []string
	NMerged     int
	Stubs       map[string]int
	Known       map[string]int
	ModelMismatch int
	Witness *Violation // a satisfying assignment of a completed path (for native translator validation)
	TouchedKnown bool
}

type Machine struct {
	prog    *ssa.Program
	sizes   types.Sizes
	sh      *Shared
	ctx     *Ctx
	em      *Emitter
	sol     *Solver
	cfg     *HarnessCfg
	harness string

	pc        []*Term
	decisions []Decision
	dpos      int
	forks     [][]Decision
	choices   map[string]int

	globals     map[*ssa.Global]Loc
	fr          *Frame
	depth       int
	frameSerial int
	steps       int
	maxSteps    int
	merge       *mergeCtx
	fns         map[*ssa.Function]bool
	nMerged     int

	allocBytes  int64
	allocLimit  int64
	trackStores func(Loc)

	env *Env
	res *PathResult

	knownActive map[string]*Term // known-finding predicates currently asserted as excluded
	knownKeys   map[string]bool
	wantWitness func() bool
	model       Model // a model of the current path condition, or nil
	noCache     bool
	noConcretize map[*Term]bool
	frameMark    int      // >0: stores by non-harness code into objects older than this frame serial are recorded
	frameViol    []string
	workerBase   int
	workerStores map[Loc]bool
	workerConflicts []string
	tier        string
	fresh       int
}

type HarnessCfg struct {
	Lowering  Lowering
	TimeoutMs int
	MaxSteps  int
	MaxPaths  int
	FeasTimeoutMs int
	IncrTimeoutMs int
	Concretize    bool
}

func NewMachine(prog *ssa.Program, sh *Shared, sol *Solver, cfg *HarnessCfg, harness string) *Machine {
	m := &Machine{prog: prog, sh: sh, sol: sol, cfg: cfg, harness: harness}
	m.sizes = types.SizesFor("gc", "amd64")
	m.ctx = NewCtx()
	m.em = NewEmitter(cfg.Lowering)
	m.em.ctx = m.ctx
	m.globals = map[*ssa.Global]Loc{}
	m.fns = map[*ssa.Function]bool{}
	m.choices = map[string]int{}
	m.maxSteps = cfg.MaxSteps
	if m.maxSteps == 0 {
		m.maxSteps = 3_000_000
	}
	m.env = NewEnv(m)
	m.res = &PathResult{Reach: map[string]bool{}, Stubs: map[string]int{}, Known: map[string]int{}}
	m.knownActive = map[string]*Term{}
	m.noConcretize = map[*Term]bool{}
	return m
}

// RunPath executes the harness along the given decision prefix.
func (m *Machine) RunPath(fn *ssa.Function, prefix []Decision, inits []*ssa.Function) (res *PathResult) {
	m.decisions = append([]Decision(nil), prefix...)
	res = m.res
	m.sol.BeginPath()
	defer func() {
		defer m.sol.EndPath()
		res.Forks = m.forks
		res.Fns = m.fns
		res.NMerged = m.nMerged
		if r := recover(); r != nil {
			switch e := r.(type) {
			case pathEnd:
				res.Kind, res.Msg = e.kind, e.msg
				switch e.kind {
				case "unsupported", "unwind", "steps", "deadlock":
					// a path that cannot be completed only matters if it is feasible: it may have been
					// entered because a feasibility query timed out (unknown = keep the branch)
					if m.pathInfeasible() {
						res.Kind, res.Msg = "infeasible", "path condition unsatisfiable (entered after an unknown feasibility answer): "+e.msg
					}
				}
			case mergeAbort:
				res.Kind, res.Msg = "unsupported", "merge abort escaped: "+e.why
			default:
				panic(r)
			}
		}
	}()
	for _, init := range inits {
		m.runFunction(init, nil, nil)
	}
	m.runFunction(fn, nil, nil)
	res.Kind = "done"
	if m.wantWitness != nil && len(res.Violations) == 0 && !res.TouchedKnown && m.wantWitness() {
		if r, model := m.check(m.ctx.Bool(true), true); r == RSat {
			ch := map[string]int{}
			for k, v := range m.choices {
				ch[k] = v
			}
			res.Witness = &Violation{Harness: m.harness, Label: "witness", Kind: "witness", Model: model, Choices: ch}
		}
	}
	return res
}

// ------------------------------------------------------------ path condition & solver

func (m *Machine) assertPC(c *Term) {
	if c.IsTrue() {
		return
	}
	m.pc = append(m.pc, c)
	m.ctx.tighten(c)
	n := m.em.Name(c)
	m.sol.Assert(m.em.take(), n)
	m.keepModelIf(c)
}

// keepModelIf drops the cached model unless it satisfies the newly added conjunct.
func (m *Machine) keepModelIf(c *Term) {
	if m.model == nil {
		return
	}
	if v, ok := evalBool(c, m.model); !ok || !v {
		m.model = nil
	}
}

// modelSays evaluates c under the cached model.
func (m *Machine) modelSays(c *Term) (val bool, ok bool) {
	if m.model == nil || m.noCache {
		return false, false
	}
	return evalBool(c, m.model)
}

func (m *Machine) modelStrings(md Model) map[string]string {
	out := map[string]string{}
	for _, v := range m.ctx.Vars {
		if strings.HasPrefix(v.Name, "$") {
			continue
		}
		if val, ok := md[v]; ok {
			out[v.Name] = val.String()
		} else {
			out[v.Name] = "0"
		}
	}
	return out
}

// checkModel: like check, but returns a parsed model (validated against the IR semantics).
func (m *Machine) checkModel(extra *Term) (SatResult, Model) {
	if extra.IsFalse() {
		return RUnsat, nil
	}
	n := m.em.Name(extra)
	var vars []string
	var vts []*Term
	isFP := map[*Term]bool{}
	for _, v := range m.ctx.Vars {
		if sn, ok := m.em.names[v]; ok {
			vars = append(vars, sn)
			vts = append(vts, v)
		} else if fn, ok := m.em.fpOf[v]; ok {
			vars = append(vars, fn)
			vts = append(vts, v)
			isFP[v] = true
		}
	}
	m.sol.SetTimeout(m.cfg.FeasTimeoutMs)
	r, model, errs := m.sol.Check(m.em.take(), []string{n}, true, vars)

	if errs != "" {
		m.res.Incon = append(m.res.Incon, "solver error: "+errs)
	}
	if r != RSat {
		return r, nil
	}
	md := Model{}
	for i, v := range vts {
		if val, ok := model[vars[i]]; ok {
			if isFP[v] {
				if bi, ok := parseSMTFloatBits(val, v.Sort.W); ok {
					md[v] = bi
				}
				continue
			}
			if bi, ok := parseSMTInt(val); ok {
				if v.Sort.K == KInt {
					bi = wrapBig(bi, v.Sort)
				}
				md[v] = bi
			}
		}
	}
	// validate: the model must satisfy PC and extra under the IR semantics
	good := true
	if v, ok := evalBool(extra, md); !ok || !v {
		good = false
	}
	for _, c := range m.pc {
		if !good {
			break
		}
		if v, ok := evalBool(c, md); !ok || !v {
			good = false
		}
	}
	if !good {
		m.res.ModelMismatch++
		return r, nil
	}
	return r, md
}


// check: is PC ∧ extra satisfiable?
func (m *Machine) check(extra *Term, wantModel bool) (SatResult, map[string]string) {
	if extra.IsFalse() {
		return RUnsat, nil
	}
	n := m.em.Name(extra)
	var vars []string
	if wantModel {
		for _, v := range m.ctx.Vars {
			if sn, ok := m.em.names[v]; ok {
				vars = append(vars, sn)
			} else if fn, ok := m.em.fpOf[v]; ok {
				vars = append(vars, fn)
			}
		}
	}
	tq := time.Now()
	if wantModel {
		m.sol.SetTimeout(m.cfg.IncrTimeoutMs)
	} else {
		m.sol.SetTimeout(m.cfg.FeasTimeoutMs)
	}
	r, model, errs := m.sol.Check(m.em.take(), []string{n}, wantModel, vars)
	if r == RUnknown && errs == "" && !m.sol.dead && wantModel {
		// obligations: escalate before giving up - non-incremental z3 5.1, then a longer budget,
		// then z3 4.8.12 (a different search) - so that borderline queries do not make the verdict
		// depend on machine load
		// (the two are raced: the first definite answer wins)
		r, model, errs = m.sol.OneShotRace([]string{n}, wantModel, vars, 3*m.cfg.TimeoutMs)
	}
	if slowLog != nil && time.Since(tq) > 500*time.Millisecond {
		slowLog(fmt.Sprintf("%.1fs %s at %s choices=%v query=%s", time.Since(tq).Seconds(), r, m.position(), m.choices, extra.String()))
	}
	if errs != "" {
		m.res.Incon = append(m.res.Incon, "solver error: "+errs)
	}
	if r == RSat && wantModel {
		out := map[string]string{}
		for _, v := range m.ctx.Vars {
			if strings.HasPrefix(v.Name, "$") {
				continue
			}
			sn, ok := m.em.names[v]
			if !ok {
				if fn, okf := m.em.fpOf[v]; okf {
					if bi, okb := parseSMTFloatBits(model[fn], v.Sort.W); okb {
						out[v.Name] = bi.String()
						continue
					}
				}
				// variable never reached the solver: unconstrained, pick zero
				out[v.Name] = "0"
				continue
			}
			if val, ok := model[sn]; ok {
				if bi, ok := parseSMTInt(val); ok {
					if v.Sort.K == KInt {
						bi = wrapBig(bi, v.Sort)
					}
					out[v.Name] = bi.String()
				} else {
					out[v.Name] = val
				}
			}
		}
		return r, out
	}
	return r, nil
}

func (m *Machine) recordDecision(val int, forced bool) {
	m.decisions = append(m.decisions, Decision{val, forced})
	m.dpos = len(m.decisions)
}

// branch decides a boolean condition.
func (m *Machine) branch(c *Term) bool {
	if c.IsConst() {
		return c.V.Sign() != 0
	}
	if mc := m.merge; mc != nil {
		var d int
		if mc.dpos < len(mc.dec) {
			d = mc.dec[mc.dpos]
		} else {
			mc.dec = append(mc.dec, 0)
		}
		mc.dpos++
		if d == 0 {
			mc.guard = m.ctx.And(mc.guard, c)
			m.ctx.Learn(c)
			return true
		}
		nc := m.ctx.Not(c)
		mc.guard = m.ctx.And(mc.guard, nc)
		m.ctx.Learn(nc)
		return false
	}
	if nc, ok := m.concretizeCmp(c); ok {
		if nc.IsConst() {
			return nc.V.Sign() != 0
		}
		c = nc
	}
	m.res.Branches++
	if m.dpos < len(m.decisions) {
		d := m.decisions[m.dpos]
		m.dpos++
		cond := c
		if d.Val == 0 {
			cond = m.ctx.Not(c)
		}
		if d.Forced {
			m.pc = append(m.pc, cond)
			m.ctx.tighten(cond)
		} else {
			m.assertPC(cond)
		}
		return d.Val == 1
	}
	if v, ok := m.modelSays(c); ok {
		side, other := c, m.ctx.Not(c)
		if !v {
			side, other = other, c
		}
		dv := 0
		if v {
			dv = 1
		}
		ro, _ := m.check(other, false)
		if ro == RUnsat {
			m.recordDecision(dv, true)
			m.pc = append(m.pc, side)
			m.ctx.tighten(side)
			return v
		}
		alt := append(append([]Decision(nil), m.decisions...), Decision{1 - dv, false})
		m.forks = append(m.forks, alt)
		m.recordDecision(dv, false)
		m.assertPC(side)
		return v
	}
	rt, md := m.checkModel(c)
	if rt == RUnsat {
		m.recordDecision(0, true)
		nc := m.ctx.Not(c)
		m.pc = append(m.pc, nc)
		m.ctx.tighten(nc)
		return false
	}
	rf, _ := m.check(m.ctx.Not(c), false)
	if rf == RUnsat {
		m.recordDecision(1, true)
		m.pc = append(m.pc, c)
		m.ctx.tighten(c)
		if md != nil {
			m.model = md
		}
		return true
	}
	// both feasible (or unknown): fork
	alt := append(append([]Decision(nil), m.decisions...), Decision{0, false})
	m.forks = append(m.forks, alt)
	m.recordDecision(1, false)
	m.assertPC(c)
	if md != nil {
		m.model = md
	}
	return true
}

// chooseInt resolves term t (already known to lie in [lo,hi] on this path) to a concrete value.
func (m *Machine) chooseInt(t *Term, lo, hi int) int {
	v, _ := m.chooseIntX(t, lo, hi, 64, false)
	return v
}

// chooseIntX: maxVals bounds the number of feasible values; if soft and exceeded (or the
// solver cannot enumerate), returns ok=false without forking.
func (m *Machine) chooseIntX(t *Term, lo, hi int, maxVals int, soft bool) (int, bool) {
	t = m.ctx.sub(t)
	if c, ok := t.ConstInt64(); ok {
		return int(c), true
	}
	if m.merge != nil {
		panic(mergeAbort{"symbolic index/size"})
	}
	if iv := m.ctx.IV(t); true {
		if iv.Lo.IsInt64() && int(iv.Lo.Int64()) > lo {
			lo = int(iv.Lo.Int64())
		}
		if iv.Hi.IsInt64() && int(iv.Hi.Int64()) < hi {
			hi = int(iv.Hi.Int64())
		}
	}
	m.res.Branches++
	eqc := func(v int) *Term { return m.ctx.Eq(t, m.ctx.IntI(t.Sort, int64(v))) }
	if m.dpos < len(m.decisions) {
		d := m.decisions[m.dpos]
		m.dpos++
		if d.Val == declined {
			return 0, false
		}
		m.assertPC(eqc(d.Val))
		m.ctx.subst[t] = m.ctx.IntI(t.Sort, int64(d.Val))
		return d.Val, true
	}
	// enumerate feasible values
	var feas []int
	if hi-lo <= 6 {
		for v := lo; v <= hi; v++ {
			r, _ := m.check(eqc(v), false)
			if r != RUnsat {
				feas = append(feas, v)
			}
		}
	} else {
		// model enumeration with blocking
		block := m.ctx.Bool(true)
		for len(feas) <= maxVals {
			r, model := m.checkValue(t, block)
			if r != RSat {
				if r == RUnknown && soft {
					m.recordDecision(declined, true)
					return 0, false
				}
				if r == RUnknown {
					// fall back to scanning the interval; unknown counts as feasible
					if hi-lo > 1024 {
						m.unsupported("cannot enumerate values of symbolic index/size (solver unknown)")
					}
					feas = feas[:0]
					for v := lo; v <= hi; v++ {
						rr, _ := m.check(eqc(v), false)
						if rr != RUnsat {
							feas = append(feas, v)
						}
					}
				}
				break
			}
			feas = append(feas, model)
			block = m.ctx.And(block, m.ctx.Not(eqc(model)))
		}
		if len(feas) > maxVals {
			if soft {
				m.recordDecision(declined, true)
				return 0, false
			}
			// too many sizes to enumerate: continue with three representatives so that violations
			// on such paths are still found, and flag the exploration as incomplete
			m.res.Incon = append(m.res.Incon, "unwind: more than 64 feasible values for a symbolic size/index at "+m.position()+" (sampled 3)")
			sort.Ints(feas)
			feas = []int{feas[0], feas[len(feas)/2], feas[len(feas)-1]}
		}
		sort.Ints(feas)
	}
	if len(feas) == 0 {
		panic(pathEnd{"infeasible", "no feasible value"})
	}
	for _, v := range feas[1:] {
		alt := append(append([]Decision(nil), m.decisions...), Decision{v, false})
		m.forks = append(m.forks, alt)
	}
	m.recordDecision(feas[0], false)
	m.assertPC(eqc(feas[0]))
	m.ctx.subst[t] = m.ctx.IntI(t.Sort, int64(feas[0]))
	return feas[0], true
}

// concretizeCmp: for a branch on a comparison between a constant and a compound term with a
// narrow interval, fork on the term's value instead of on the boolean: later uses of the same
// term (loop bounds, offsets) then fold to constants.
func (m *Machine) concretizeCmp(c *Term) (*Term, bool) {
	if !m.cfg.Concretize {
		return nil, false
	}
	cmp := c
	if cmp.Op == OBNot {
		cmp = cmp.Args[0]
	}
	if cmp.Op != OLt && cmp.Op != OLe && cmp.Op != OEq {
		return nil, false
	}
	a, b := cmp.Args[0], cmp.Args[1]
	var t *Term
	switch {
	case a.IsConst() && !b.IsConst():
		t = b
	case b.IsConst() && !a.IsConst():
		t = a
	default:
		return nil, false
	}
	if t.Sort.K != KInt || t.Op == OVar || t.Op == OConst {
		return nil, false
	}
	iv := m.ctx.IV(t)
	w := new(big.Int).Sub(iv.Hi, iv.Lo)
	if !w.IsInt64() || w.Int64() > 256 || !iv.Lo.IsInt64() {
		return nil, false
	}
	if m.noConcretize[t] {
		return nil, false
	}
	// during prefix replay the recorded decision kinds must line up: a soft failure is
	// deterministic (same queries), so replay takes the same route.
	v, ok := m.chooseIntX(t, int(iv.Lo.Int64()), int(iv.Hi.Int64()), 16, true)
	if !ok {
		m.noConcretize[t] = true
		return nil, false
	}
	_ = v
	// rebuild the comparison: constructors substitute t
	var r *Term
	switch cmp.Op {
	case OLt:
		r = m.ctx.Lt(a, b)
	case OLe:
		r = m.ctx.Le(a, b)
	default:
		r = m.ctx.Eq(a, b)
	}
	if c.Op == OBNot {
		r = m.ctx.Not(r)
	}
	return r, true
}

// checkValue finds a model value for t under PC ∧ extra.
func (m *Machine) checkValue(t *Term, extra *Term) (SatResult, int) {
	tn := m.em.Name(t)
	en := m.em.Name(extra)
	m.sol.SetTimeout(m.cfg.FeasTimeoutMs)
	r, model, errs := m.sol.Check(m.em.take(), []string{en}, true, []string{tn})
	if r == RUnknown && errs == "" && !m.sol.dead {
		r, model, errs = m.sol.OneShot([]string{en}, true, []string{tn}, m.cfg.TimeoutMs)
	}
	if errs != "" {
		m.res.Incon = append(m.res.Incon, "solver error: "+errs)
		return RUnknown, 0
	}
	if r != RSat {
		return r, 0
	}
	bi, ok := parseSMTInt(model[tn])
	if !ok {
		return RUnknown, 0
	}
	bi = wrapBig(bi, t.Sort)
	if !bi.IsInt64() {
		return RUnknown, 0
	}
	return RSat, int(bi.Int64())
}

func (m *Machine) excludeKnown(c *Term) *Term {
	for _, k := range m.knownActive {
		c = m.ctx.And(c, m.ctx.Not(k))
	}
	return c
}

// mayPanic: cond is the condition under which the Go runtime would panic here.
func (m *Machine) mayPanic(cond *Term, what string) {
	if cond.IsFalse() {
		return
	}
	if mc := m.merge; mc != nil {
		mc.panics = append(mc.panics, guardedPanic{m.ctx.And(mc.guard, cond), what})
		return
	}
	if cond.IsTrue() {
		m.goPanic(what)
	}
	m.res.Obligations++
	t0 := time.Now()
	r, model := m.check(m.excludeKnown(cond), true)
	switch r {
	case RUnsat:
		// if known findings were excluded, the residual may still panic: keep going on !cond
		m.res.Discharged++
		if len(m.knownActive) > 0 {
			m.noteKnownHits(cond)
			rn, _ := m.check(m.ctx.Not(cond), false)
			if rn == RUnsat {
				panic(pathEnd{"known", "path ends in known finding: " + what})
			}
			m.assertPC(m.ctx.Not(cond))
		} else {
			nc := m.ctx.Not(cond)
			m.pc = append(m.pc, nc)
			m.ctx.tighten(nc)
		}
		m.sample("panic-free:"+what, "unsat", t0)
		return
	case RSat:
		m.violation("panic", "panic: "+what, model)
		m.sample("panic-free:"+what, "sat", t0)
	default:
		m.res.Incon = append(m.res.Incon, "unknown: panic condition "+what+" at "+m.position())
		m.sample("panic-free:"+what, "unknown", t0)
	}
	// continue on the non-panicking side if feasible
	rn, _ := m.check(m.ctx.Not(cond), false)
	if rn == RUnsat {
		panic(pathEnd{"panic", what})
	}
	m.assertPC(m.ctx.Not(cond))
}

func (m *Machine) goPanic(what string) {
	if mc := m.merge; mc != nil {
		mc.panics = append(mc.panics, guardedPanic{mc.guard, what})
		mc.guard = m.ctx.Bool(false)
		panic(mergeAbort{"panic in merged callee: " + what})
	}
	m.res.Obligations++
	t0 := time.Now()
	r, model := m.check(m.excludeKnown(m.ctx.Bool(true)), true)
	if r == RSat {
		m.violation("panic", "panic: "+what, model)
		m.sample("panic-free:"+what, "sat", t0)
	} else if r == RUnsat {
		m.res.Discharged++
		m.noteKnownHits(m.ctx.Bool(true))
	} else {
		m.res.Incon = append(m.res.Incon, "unknown: reached panic "+what)
	}
	panic(pathEnd{"panic", what + " at " + m.position()})
}

func (m *Machine) noteKnownHits(cond *Term) {
	for k, pred := range m.knownActive {
		r, _ := m.check(m.ctx.And(cond, pred), false)
		if r == RSat {
			m.res.Known[k]++
		}
	}
}

func (m *Machine) violation(kind, label string, model map[string]string) {
	ch := map[string]int{}
	for k, v := range m.choices {
		ch[k] = v
	}
	dec := make([]int, len(m.decisions))
	for i, d := range m.decisions {
		dec[i] = d.Val
	}
	m.res.Violations = append(m.res.Violations, Violation{Harness: m.harness, Label: label, Kind: kind, Where: m.position(), Model: model, Choices: ch, Decisions: dec})
}

func (m *Machine) sample(label, verdict string, t0 time.Time) {
	if len(m.res.Samples) >= 4 {
		return
	}
	var parts []string
	for k, v := range m.choices {
		parts = append(parts, fmt.Sprintf("%s=%d", k, v))
	}
	sort.Strings(parts)
	m.res.Samples = append(m.res.Samples, Sample{Harness: m.harness, Label: label, Verdict: verdict, Nodes: m.em.nodes, Ms: time.Since(t0).Milliseconds(), Path: strings.Join(parts, ",")})
}

// doAssert implements vrt.Assert.
func (m *Machine) doAssert(c *Term, label string) {
	m.res.Obligations++
	if c.IsTrue() {
		m.res.Discharged++
		m.res.Trivial++
		return
	}
	t0 := time.Now()
	neg := m.ctx.Not(c)
	r, model := m.check(m.excludeKnown(neg), true)
	switch r {
	case RUnsat:
		m.res.Discharged++
		m.sample(label, "unsat", t0)
		if len(m.knownActive) > 0 {
			m.noteKnownHits(neg)
		}
	case RSat:
		m.violation("assert", label, model)
		m.sample(label, "sat", t0)
	default:
		m.res.Incon = append(m.res.Incon, "unknown: assert "+label)
		m.sample(label, "unknown", t0)
	}
	// continue under the assumption that it holds
	if r == RUnsat && len(m.knownActive) == 0 {
		// implied by the path condition: nothing to assert
		m.pc = append(m.pc, c)
		m.ctx.tighten(c)
		return
	}
	rn, _ := m.check(c, false)
	if rn == RUnsat {
		panic(pathEnd{"violation-stop", label})
	}
	m.assertPC(c)
}

func (m *Machine) doAssume(c *Term) {
	if c.IsTrue() {
		return
	}
	if c.IsFalse() {
		panic(pathEnd{"infeasible", "assume false"})
	}
	r, _ := m.check(c, false)
	if r == RUnsat {
		panic(pathEnd{"infeasible", "assumption infeasible"})
	}
	m.assertPC(c)
}

var slowLog func(string)

// declined marks a decision slot where a soft concretisation attempt gave up (so that
// replays of this prefix take the same route).
const declined = -1 << 40

// pathInfeasible: is the current path condition unsatisfiable (decided with the escalating
// non-incremental solvers)?
func (m *Machine) pathInfeasible() (infeasible bool) {
	defer func() {
		if r := recover(); r != nil {
			infeasible = false
		}
	}()
	if m.sol.dead {
		return false
	}
	r, _ := m.check(m.ctx.Bool(true), true)
	return r == RUnsat
}
