package main

import (
	"encoding/json"
	"flag"
	"fmt"
	"os"
	"path/filepath"
	"sort"
	"strings"
	"sync"
	"time"

	"golang.org/x/tools/go/packages"
	"golang.org/x/tools/go/ssa"
	"golang.org/x/tools/go/ssa/ssautil"
)

var repoDir = func() string {
	if r := os.Getenv("VERIF_REPO"); r != "" {
		return r // scratch copies (seed experiments); registered commands always use /repo
	}
	return "/repo"
}()

const (
	verifDir  = "/verif"
	libPkg    = "github.com/hnakamur/whispertool"
	cmdPkg    = "github.com/hnakamur/whispertool/cmd"
	rtTmpl    = "/verif/harness/rt/vrt.go.tmpl"
	specsFile = "/verif/harness/specs.json"
)

type HarnessSpec struct {
	Fn        string   `json:"fn"`
	Pkg       string   `json:"pkg"` // lib | cmd
	Lowering  string   `json:"lowering"`
	Tiers     []string `json:"tiers"`
	Solver    string   `json:"solver"`
	TimeoutMs int      `json:"timeout_ms"`
	MaxPaths  int      `json:"max_paths"`
	Note      string   `json:"note"`
	Concretize bool    `json:"concretize"`
}

type PropSpec struct {
	Level       string        `json:"level"`
	Explanation string        `json:"explanation"`
	Bounds      []string      `json:"bounds"`
	Assumptions []string      `json:"assumptions"`
	Harnesses   []HarnessSpec `json:"harnesses"`
}

type Loaded struct {
	prog   *ssa.Program
	lib    *ssa.Package
	cmd    *ssa.Package
	scratch string
	overlayJSON string
}

func harnessFiles(pkg string) []string {
	fs, _ := filepath.Glob(filepath.Join(verifDir, "harness", pkg, "*.go"))
	sort.Strings(fs)
	return fs
}

func rtSource(pkgName string) []byte {
	b, err := os.ReadFile(rtTmpl)
	if err != nil {
		fatal(2, "cannot read vrt template: %v", err)
	}
	return []byte(strings.Replace(string(b), "package PKG", "package "+pkgName, 1))
}

func overlayMap(withCmd bool) map[string][]byte {
	ov := map[string][]byte{}
	ov[filepath.Join(repoDir, "zz_verif_rt.go")] = rtSource("whispertool")
	for _, f := range harnessFiles("lib") {
		b, _ := os.ReadFile(f)
		ov[filepath.Join(repoDir, "zz_verif_"+filepath.Base(f))] = b
	}
	if withCmd {
		ov[filepath.Join(repoDir, "cmd", "zz_verif_rt.go")] = rtSource("cmd")
		for _, f := range harnessFiles("cmd") {
			b, _ := os.ReadFile(f)
			ov[filepath.Join(repoDir, "cmd", "zz_verif_"+filepath.Base(f))] = b
		}
	}
	return ov
}

func loadProgram(withCmd bool) *Loaded {
	cfg := &packages.Config{Mode: packages.LoadAllSyntax, Dir: repoDir, Overlay: overlayMap(withCmd),
		Env: append(os.Environ(), "GOFLAGS=-mod=mod", "GOPROXY=off", "GOSUMDB=off", "GOTOOLCHAIN=local")}
	pats := []string{libPkg}
	if withCmd {
		pats = append(pats, cmdPkg)
	}
	pkgs, err := packages.Load(cfg, pats...)
	if err != nil {
		fatal(2, "packages.Load: %v", err)
	}
	nerr := 0
	packages.Visit(pkgs, nil, func(p *packages.Package) {
		for _, e := range p.Errors {
			if p.PkgPath == libPkg || p.PkgPath == cmdPkg {
				fmt.Fprintf(os.Stderr, "load error: %v\n", e)
				nerr++
			}
		}
	})
	if nerr > 0 {
		fatal(2, "the repository (with harness overlay) does not type-check")
	}
	prog, spkgs := ssautil.AllPackages(pkgs, ssa.InstantiateGenerics)
	ld := &Loaded{prog: prog}
	for i, p := range pkgs {
		if spkgs[i] == nil {
			continue
		}
		switch p.PkgPath {
		case libPkg:
			ld.lib = spkgs[i]
		case cmdPkg:
			ld.cmd = spkgs[i]
		}
	}
	if ld.lib != nil {
		ld.lib.Build()
	}
	if ld.cmd != nil {
		ld.cmd.Build()
	}
	return ld
}

func fatal(code int, format string, a ...interface{}) {
	fmt.Fprintf(os.Stderr, "vengine: "+format+"\n", a...)
	os.Exit(code)
}

// ------------------------------------------------------------ exploration

type HarnessResult struct {
	Spec        HarnessSpec
	Paths       int
	PathKinds   map[string]int
	Branches    int
	Obligations int
	Discharged  int
	Trivial     int
	Violations  []Violation
	Reach       map[string]bool
	Incon       []string
	Samples     []Sample
	Fns         map[string]bool
	Stubs       map[string]int
	Known       map[string]int
	NSat, NUnsat, NUnknown int
	SolverTime  time.Duration
	Wall        time.Duration
	Merged      int
	Truncated   bool
	Witnesses   []Violation
	Buckets     [5]int
	BucketT     [5]time.Duration
}

var overrideLowering string

func lowerOf(s string) Lowering {
	if overrideLowering != "" {
		s = overrideLowering
	}
	if s == "bv" {
		return LBV
	}
	return LInt
}

func exploreHarness(ld *Loaded, spec HarnessSpec, tier string, workers int, known map[string]bool, wallCap time.Duration) *HarnessResult {
	pkg := ld.lib
	if spec.Pkg == "cmd" {
		pkg = ld.cmd
	}
	fn := pkg.Func(spec.Fn)
	if fn == nil {
		fatal(2, "harness function %s not found in %s", spec.Fn, pkg.Pkg.Path())
	}
	var inits []*ssa.Function
	if ld.lib != nil {
		inits = append(inits, ld.lib.Func("init"))
	}
	if spec.Pkg == "cmd" {
		inits = append(inits, ld.cmd.Func("init"))
	}
	timeout := spec.TimeoutMs
	if timeout == 0 {
		timeout = 20000
		if tier == "thorough" {
			timeout = 120000
		}
	}
	maxPaths := spec.MaxPaths
	if maxPaths == 0 {
		maxPaths = 200000
	}
	solverKind := SolverKind(spec.Solver)
	if spec.Solver == "" {
		solverKind = SZ3New
	}
	cfg := &HarnessCfg{Lowering: lowerOf(spec.Lowering), TimeoutMs: timeout, FeasTimeoutMs: 2500, IncrTimeoutMs: 5000, Concretize: spec.Concretize}
	sh := &Shared{mergeable: map[*ssa.Function]bool{}, mergeableInner: map[*ssa.Function]bool{}}
	hr := &HarnessResult{Spec: spec, PathKinds: map[string]int{}, Reach: map[string]bool{}, Fns: map[string]bool{}, Stubs: map[string]int{}, Known: map[string]int{}}
	t0 := time.Now()

	var mu sync.Mutex
	cond := sync.NewCond(&mu)
	work := [][]Decision{nil}
	active := 0
	stop := false
	nwit := 0

	worker := func() {
		sol, err := StartSolver(solverKind, timeout)
		if err != nil {
			fatal(2, "cannot start solver: %v", err)
		}
		defer func() {
			mu.Lock()
			hr.NSat += sol.NSat
			hr.NUnsat += sol.NUnsat
			hr.NUnknown += sol.NUnknown
			hr.SolverTime += sol.Time
			for i := range sol.Buckets {
				hr.Buckets[i] += sol.Buckets[i]
				hr.BucketT[i] += sol.BucketT[i]
			}
			mu.Unlock()
			sol.Close()
		}()
		npaths := 0
		for {
			mu.Lock()
			for len(work) == 0 && active > 0 && !stop {
				cond.Wait()
			}
			if stop || (len(work) == 0 && active == 0) {
				mu.Unlock()
				cond.Broadcast()
				return
			}
			prefix := work[len(work)-1]
			work = work[:len(work)-1]
			active++
			mu.Unlock()

			m := NewMachine(ld.prog, sh, sol, cfg, spec.Fn)
			m.tier = tier
			m.knownKeys = known
			m.wantWitness = func() bool {
				mu.Lock()
				defer mu.Unlock()
				if nwit >= 2 {
					return false
				}
				nwit++
				return true
			}
			res := m.RunPath(fn, prefix, inits)
			npaths++
			if npaths%200 == 0 || sol.dead {
				// periodic reset keeps the solver's memory bounded
				if sol.dead {
					sol.Close()
					ns, err := StartSolver(solverKind, timeout)
					if err == nil {
						ns.NSat, ns.NUnsat, ns.NUnknown, ns.Time = sol.NSat, sol.NUnsat, sol.NUnknown, sol.Time
						ns.Buckets, ns.BucketT = sol.Buckets, sol.BucketT
						*sol = *ns
					}
				} else {
					sol.Reset()
				}
			}

			mu.Lock()
			active--
			hr.Paths++
			hr.PathKinds[res.Kind]++
			hr.Branches += res.Branches
			hr.Obligations += res.Obligations
			hr.Discharged += res.Discharged
			hr.Trivial += res.Trivial
			hr.Merged += res.NMerged
			for k := range res.Reach {
				hr.Reach[k] = true
			}
			for f := range res.Fns {
				hr.Fns[f.String()] = true
			}
			for k, v := range res.Stubs {
				hr.Stubs[k] += v
			}
			for k, v := range res.Known {
				hr.Known[k] += v
			}
			if len(hr.Samples) < 6 {
				hr.Samples = append(hr.Samples, res.Samples...)
			}
			hr.Violations = append(hr.Violations, res.Violations...)
			if res.Witness != nil {
				hr.Witnesses = append(hr.Witnesses, *res.Witness)
			}
			for _, s := range res.Incon {
				if len(hr.Incon) < 50 {
					hr.Incon = append(hr.Incon, s)
				}
			}
			switch res.Kind {
			case "panic":
				if os.Getenv("VERIF_DEBUG_PANIC") != "" {
					fmt.Fprintln(os.Stderr, "PANIC-PATH:", res.Msg, res.Violations)
				}
			case "unsupported", "unwind", "steps", "deadlock":
				if len(hr.Incon) < 50 {
					hr.Incon = append(hr.Incon, res.Kind+": "+res.Msg)
				}
			}
			work = append(work, res.Forks...)
			if hr.Paths >= maxPaths || time.Since(t0) > wallCap || len(hr.Violations) >= 40 {
				if len(work) > 0 || active > 0 {
					hr.Truncated = len(hr.Violations) < 40
				}
				stop = true
			}
			mu.Unlock()
			cond.Broadcast()
		}
	}
	var wg sync.WaitGroup
	for i := 0; i < workers; i++ {
		wg.Add(1)
		go func() { defer wg.Done(); worker() }()
	}
	wg.Wait()
	hr.Wall = time.Since(t0)
	return hr
}

// ------------------------------------------------------------ main

func main() {
	if os.Getenv("VERIF_SLOWLOG") != "" {
		var mu sync.Mutex
		slowLog = func(s string) {
			mu.Lock()
			fmt.Fprintln(os.Stderr, "SLOW:", s)
			mu.Unlock()
		}
	}
	if len(os.Args) < 2 {
		fatal(2, "usage: vengine check <PROP> [--tier quick|thorough] | selftest | run <pkg> <fn>")
	}
	switch os.Args[1] {
	case "check":
		fs := flag.NewFlagSet("check", flag.ExitOnError)
		tier := fs.String("tier", "quick", "quick|thorough")
		workers := fs.Int("workers", 16, "parallel workers")
		only := fs.String("only", "", "run only harnesses whose name contains this")
		noReplay := fs.Bool("no-replay", false, "skip native replay (debugging)")
		lowering := fs.String("lowering", "", "override the lowering of every selected harness (int|bv): cross-check mode")
		if len(os.Args) < 3 {
			fatal(2, "check needs a property id")
		}
		prop := os.Args[2]
		fs.Parse(os.Args[3:])
		if t := os.Getenv("VERIF_TIER"); t == "quick" || t == "thorough" {
			*tier = t
		}
		overrideLowering = *lowering
		os.Exit(runCheck(prop, *tier, *workers, *only, *noReplay))
	case "selftest":
		os.Exit(selftest())
	case "replay":
		if len(os.Args) < 4 {
			fatal(2, "usage: vengine replay <PROP> <cex.json>")
		}
		os.Exit(replayFile(os.Args[2], os.Args[3]))
	default:
		fatal(2, "unknown command %s", os.Args[1])
	}
}

func loadSpecs() map[string]*PropSpec {
	b, err := os.ReadFile(specsFile)
	if err != nil {
		fatal(2, "cannot read specs: %v", err)
	}
	specs := map[string]*PropSpec{}
	if err := json.Unmarshal(b, &specs); err != nil {
		fatal(2, "specs.json: %v", err)
	}
	return specs
}
