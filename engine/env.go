package main

// Environment model (DESIGN §1.6, "E-flat"): a tiny file system of symbolic byte images, an
// fd table with open/locked state and an event log, the filebuffer dependency as a pair of
// images M (buffer) / D (disk), a harness clock and an output log.

import (
	"fmt"
	"os"
	"go/types"
	"strings"

	"golang.org/x/tools/go/ssa"
)

type FsFile struct {
	path   string
	data   []*Term // disk image D
	exists bool
	writes int // number of disk-mutating events
}

type FileObj struct {
	f      *FsFile
	path   string
	open   bool
	locked bool
	flags  int64
	id     int
	std    string // "stdout"/"stderr" for process streams
	reads  int    // number of read events through this descriptor
	lockedBeforeFirstRead bool
	out    []*Term // bytes written directly (text out files)
	full   bool    // /dev/full: every write fails
}

type FileBufObj struct {
	fo    *FileObj
	size  int
	m     []*Term // buffer image M (nil until first access: lazily equals D)
	dirty bool
}

type LogRec struct {
	Format string
	Args   []Value
}

type Env struct {
	m        *Machine
	files    map[string]*FsFile
	order    []string
	fds      []*FileObj
	now      *Term // harness clock (u32 seconds) or nil
	log      []LogRec
	events   []string
	tmpCount int
	pageSize int64
	faults   map[string]*Term
	faultOn  map[string]bool
	diskWritesOutsideSync int
	groups map[Loc]*egState
	groupWrites map[Loc][]map[Loc]bool
	timeTexts []*Term
	expectBlock bool
	driftMax  int64
	nowCalls  int
	realFB    bool // execute the real filebuffer code (E-pages) instead of the E-flat intrinsics
	served map[string]string
	nrand  int
}

func NewEnv(m *Machine) *Env {
	return &Env{m: m, files: map[string]*FsFile{}, pageSize: 4096, faults: map[string]*Term{}, faultOn: map[string]bool{}, groups: map[Loc]*egState{}, groupWrites: map[Loc][]map[Loc]bool{}, served: map[string]string{}}
}

func (e *Env) event(s string) { e.events = append(e.events, s) }

func (e *Env) file(path string) *FsFile {
	if f, ok := e.files[path]; ok {
		return f
	}
	f := &FsFile{path: path}
	e.files[path] = f
	e.order = append(e.order, path)
	return f
}

// fault returns a symbolic boolean for a fallible environment call site if the harness has
// enabled fault injection for that kind; otherwise false.
func (e *Env) fault(kind string) *Term {
	m := e.m
	if !e.faultOn[kind] {
		return m.ctx.Bool(false)
	}
	n := 0
	for k := range e.faults {
		if strings.HasPrefix(k, "fault."+kind+".") {
			n++
		}
	}
	name := fmt.Sprintf("fault.%s.%d", kind, n)
	v := m.ctx.Var(name, SBool)
	e.faults[name] = v
	return v
}

const (
	oRDONLY = 0x0
	oWRONLY = 0x1
	oRDWR   = 0x2
	oCREATE = 0x40
	oEXCL   = 0x80
	oTRUNC  = 0x200
	oAPPEND = 0x400
)

func (m *Machine) vrtEnvCall(name string, a []Value) (Value, bool) {
	e := m.env
	c := m.ctx
	switch name {
	case "TempFile":
		m.sideEffect("vrt.TempFile")
		nm := m.mustStr(a[0])
		path := "/vfs/" + nm
		f := e.file(path)
		f.exists = true
		f.data = append([]*Term(nil), m.sliceBytes(a[1].(SliceV))...)
		return m.strConst(path), true
	case "NoFile":
		m.sideEffect("vrt.NoFile")
		path := "/vfs/" + m.mustStr(a[0])
		e.file(path)
		return m.strConst(path), true
	case "NoDir":
		// a path under a directory that does not exist (and cannot be created)
		path := "/vfs-nodir/" + m.mustStr(a[0])
		return m.strConst(path), true
	case "ReadFile":
		path := m.mustStr(a[0])
		f, ok := e.files[path]
		if !ok || !f.exists {
			return SliceV{}, true
		}
		return m.bytesSlice(append([]*Term(nil), f.data...)), true
	case "FileExists":
		path := m.mustStr(a[0])
		f, ok := e.files[path]
		return c.Bool(ok && f.exists), true
	case "OpenFDs":
		n := 0
		for _, fd := range e.fds {
			if fd.open && fd.std == "" {
				n++
			}
		}
		return c.IntI(SI64, int64(n)), true
	case "LockedFDs":
		n := 0
		for _, fd := range e.fds {
			if fd.open && fd.locked {
				n++
			}
		}
		return c.IntI(SI64, int64(n)), true
	case "IsLocked":
		// is some open descriptor on this path holding the lock?
		path := m.mustStr(a[0])
		for _, fd := range e.fds {
			if fd.open && fd.locked && fd.path == path {
				return c.Bool(true), true
			}
		}
		return c.Bool(false), true
	case "DiskWrites":
		path := m.mustStr(a[0])
		f, ok := e.files[path]
		if !ok {
			return c.IntI(SI64, 0), true
		}
		return c.IntI(SI64, int64(f.writes)), true
	case "SetClock":
		e.now = a[0].(*Term)
		return nil, true
	case "SetPageSize":
		v, _ := a[0].(*Term).ConstInt64()
		e.pageSize = v
		return nil, true
	case "EnableFault":
		e.faultOn[m.mustStr(a[0])] = true
		return nil, true
	case "LockedBeforeFirstRead":
		// every descriptor that was read from had the lock at its first read
		ok := true
		for _, fd := range e.fds {
			if fd.reads > 0 && !fd.lockedBeforeFirstRead {
				ok = false
			}
		}
		return c.Bool(ok), true
	case "LogLen":
		return c.IntI(SI64, int64(len(e.log))), true
	case "ClockDrift":
		v, _ := a[0].(*Term).ConstInt64()
		e.driftMax = v
		return nil, true
	case "ExpectBlock":
		e.expectBlock = true
		return nil, true
	case "RealFileBuffer":
		e.realFB = true
		return nil, true
	case "FrameBegin":
		m.frameMark = m.frameSerial + 1
		m.frameViol = nil
		return nil, true
	case "FrameViolations":
		n := len(m.frameViol)
		if n > 0 {
			m.res.Incon = append(m.res.Incon[:0:0], m.res.Incon...)
			e.event("store into pre-existing object at " + m.frameViol[0])
		}
		m.frameMark = 0
		return c.IntI(SI64, int64(n)), true
	case "FrameSite":
		if len(m.frameViol) > 0 {
			return m.strConst(m.frameViol[0]), true
		}
		return m.strConst(""), true
	case "WorkerConflicts":
		return c.IntI(SI64, int64(len(m.workerConflicts))), true
	case "DeepEqual":
		return c.Bool(true), true
	case "Writer":
		return IfaceV{t: discardType, v: &DiscardObj{}}, true
	case "FailWriter":
		n, ok := a[0].(*Term).ConstInt64()
		if !ok {
			m.unsupported("FailWriter with symbolic count")
		}
		return IfaceV{t: discardType, v: &FailWriterObj{left: int(n)}}, true
	case "LogHasPrefix":
		i, _ := a[0].(*Term).ConstInt64()
		if int(i) >= len(e.log) {
			return c.Bool(false), true
		}
		return c.Bool(strings.HasPrefix(e.log[i].Format, m.mustStr(a[1]))), true
	case "LogFormat":
		i, _ := a[0].(*Term).ConstInt64()
		if int(i) >= len(e.log) {
			return m.strConst(""), true
		}
		return m.strConst(e.log[i].Format), true
	case "LogArgU32":
		i, _ := a[0].(*Term).ConstInt64()
		j, _ := a[1].(*Term).ConstInt64()
		return m.logArgInt(int(i), int(j), SU32), true
	case "LogArgInt":
		i, _ := a[0].(*Term).ConstInt64()
		j, _ := a[1].(*Term).ConstInt64()
		return m.logArgInt(int(i), int(j), SI64), true
	case "LogArgF64":
		i, _ := a[0].(*Term).ConstInt64()
		j, _ := a[1].(*Term).ConstInt64()
		return m.logArgF64(int(i), int(j)), true
	}
	return nil, false
}

func (m *Machine) logArg(i, j int) Value {
	e := m.env
	if i >= len(e.log) || j >= len(e.log[i].Args) {
		m.unsupported("log arg out of range")
	}
	v := e.log[i].Args[j]
	if iv, ok := v.(IfaceV); ok {
		return iv.v
	}
	return v
}

func (m *Machine) logArgInt(i, j int, s Sort) Value {
	t, ok := m.logArg(i, j).(*Term)
	if !ok || t.Sort.K != KInt {
		m.unsupported("log arg is not an integer")
	}
	return m.ctx.Conv(t, s)
}

func (m *Machine) logArgF64(i, j int) Value {
	t, ok := m.logArg(i, j).(*Term)
	if !ok || t.Sort.K != KF64 {
		m.unsupported("log arg is not a float64")
	}
	return t
}

func (m *Machine) initExternalGlobal(g *ssa.Global, l Loc) {
	full := g.Pkg.Pkg.Path() + "." + g.Name()
	switch full {
	case "os.ErrNotExist", "io/fs.ErrNotExist":
		m.storeRaw(l, IfaceV{t: errObjType, v: m.env.errNotExist()})
	case "os.Stdout":
		m.storeRaw(l, Pointer{loc: m.env.stdStream("stdout")})
	case "os.Stderr":
		m.storeRaw(l, Pointer{loc: m.env.stdStream("stderr")})
	case "io.Discard", "io/ioutil.Discard":
		m.storeRaw(l, IfaceV{t: discardType, v: &DiscardObj{}})
	case "io.EOF":
		m.storeRaw(l, IfaceV{t: errObjType, v: &ErrObj{msg: "EOF"}})
	case "strconv.ErrRange":
		m.storeRaw(l, IfaceV{t: errObjType, v: theErrRange})
	case "strconv.ErrSyntax":
		m.storeRaw(l, IfaceV{t: errObjType, v: theErrSyntax})
	default:
		// dependency initialisers are not executed: an error variable of a dependency that has
		// no model here would silently read as nil - refuse instead
		if g.Pkg.Pkg.Path() != libPkg && g.Pkg.Pkg.Path() != cmdPkg && strings.HasPrefix(g.Name(), "Err") {
			if _, isIface := g.Type().(*types.Pointer).Elem().Underlying().(*types.Interface); isIface {
				m.unsupported("unmodelled error variable " + full + " (dependency init is not executed)")
			}
		}
	}
}

var theErrRange = &ErrObj{msg: "value out of range"}
var theErrSyntax = &ErrObj{msg: "invalid syntax"}

var theErrNotExist = &ErrObj{msg: "file does not exist", notExist: true}

func (e *Env) errNotExist() *ErrObj { return theErrNotExist }

func (e *Env) stdStream(name string) *FileObj {
	for _, fd := range e.fds {
		if fd.std == name {
			return fd
		}
	}
	fo := &FileObj{std: name, open: true, id: len(e.fds)}
	e.fds = append(e.fds, fo)
	return fo
}

func (m *Machine) pathError(op, path string, notExist bool) IfaceV {
	eo := &ErrObj{msg: op + " " + path + ": error", notExist: notExist, site: m.position()}
	if notExist {
		eo.wrapped = IfaceV{t: errObjType, v: m.env.errNotExist()}
	}
	return IfaceV{t: errObjType, v: eo}
}

func fileObjOf(v Value) *FileObj {
	p, ok := v.(Pointer)
	if !ok {
		return nil
	}
	fo, _ := p.loc.(*FileObj)
	return fo
}

func fileBufOf(v Value) *FileBufObj {
	p, ok := v.(Pointer)
	if !ok {
		return nil
	}
	fb, _ := p.loc.(*FileBufObj)
	return fb
}

func (m *Machine) envIntrinsic(name string, fn *ssa.Function, args []Value) (Value, bool) {
	e := m.env
	c := m.ctx
	nilErr := IfaceV{}
	if e.realFB && strings.Contains(name, "github.com/hnakamur/filebuffer") {
		// E-pages: only the vector I/O system calls are modelled; paging, bitsets and copying are real code
		switch name {
		case "github.com/hnakamur/filebuffer.preadv", "github.com/hnakamur/filebuffer.pwritev":
			m.stub(name)
			fo := fileObjOf(args[0])
			iovs := args[1].(SliceV)
			off, ok := args[2].(*Term).ConstInt64()
			if !ok {
				m.unsupported("vector I/O at a symbolic offset")
			}
			if fo == nil || !fo.open {
				return TupleV{c.IntI(SI64, 0), m.newErr("vector I/O: file already closed", nil)}, true
			}
			write := strings.HasSuffix(name, "pwritev")
			n := int64(0)
			pos := off
			for i := 0; i < iovs.len; i++ {
				iov := m.load(iovs.arr.elems[iovs.off+i]).(SliceV)
				for k := 0; k < iov.len; k++ {
					if pos >= int64(len(fo.f.data)) {
						return TupleV{c.IntI(SI64, n), nilErr}, true
					}
					cell := iov.arr.elems[iov.off+k].(*Cell)
					if write {
						fo.f.data[pos] = cell.v.(*Term)
					} else {
						m.store(cell, fo.f.data[pos])
					}
					pos++
					n++
				}
			}
			if write && n > 0 {
				fo.f.writes++
				e.event(fmt.Sprintf("pwritev fd%d off=%d len=%d", fo.id, off, n))
			}
			return TupleV{c.IntI(SI64, n), nilErr}, true
		case "(*github.com/hnakamur/filebuffer.FileBuffer).ReadAt", "(*github.com/hnakamur/filebuffer.FileBuffer).WriteAt":
			// page numbers must be concrete: resolve a symbolic offset by forking on its feasible values
			if off, ok := args[2].(*Term); ok && !off.IsConst() && m.merge == nil {
				v := m.chooseInt(off, -(1 << 30), 1<<30)
				args[2] = c.IntI(off.Sort, int64(v))
			}
		}
		return nil, false
	}
	switch name {
	case "os.Getpagesize":
		m.stub(name)
		return c.IntI(SI64, e.pageSize), true
	case "os.OpenFile":
		m.stub(name)
		m.sideEffect(name)
		path := m.mustStr(args[0])
		flags, ok := args[1].(*Term).ConstInt64()
		if !ok {
			m.unsupported("os.OpenFile with symbolic flags")
		}
		if path == "/dev/full" {
			// a device that accepts opens and fails every write with ENOSPC
			fo := &FileObj{f: &FsFile{path: path, exists: true}, path: path, open: true, flags: flags, id: len(e.fds), full: true}
			e.fds = append(e.fds, fo)
			return TupleV{Pointer{loc: fo}, nilErr}, true
		}
		if strings.HasPrefix(path, "/vfs-nodir/") {
			return TupleV{Pointer{}, m.pathError("open", path, true)}, true
		}
		if m.branch(e.fault("open")) {
			return TupleV{Pointer{}, m.pathError("open", path, false)}, true
		}
		f := e.file(path)
		if !f.exists {
			if flags&oCREATE == 0 {
				return TupleV{Pointer{}, m.pathError("open", path, true)}, true
			}
			f.exists = true
			f.data = nil
			f.writes++
			e.event("create " + path)
		} else if flags&oCREATE != 0 && flags&oEXCL != 0 {
			return TupleV{Pointer{}, m.newErr("open "+path+": file exists", nil)}, true
		}
		if flags&oTRUNC != 0 {
			f.data = nil
			f.writes++
		}
		fo := &FileObj{f: f, path: path, open: true, flags: flags, id: len(e.fds)}
		e.fds = append(e.fds, fo)
		e.event(fmt.Sprintf("open fd%d %s", fo.id, path))
		return TupleV{Pointer{loc: fo}, nilErr}, true
	case "os.Open":
		return m.envIntrinsic("os.OpenFile", fn, []Value{args[0], c.IntI(SI64, oRDONLY), c.IntI(SU32, 0)})
	case "os.Create":
		return m.envIntrinsic("os.OpenFile", fn, []Value{args[0], c.IntI(SI64, oRDWR|oCREATE|oTRUNC), c.IntI(SU32, 0666)})
	case "(*os.File).Fd":
		fo := fileObjOf(args[0])
		return c.IntI(SU64, int64(fo.id)), true
	case "syscall.Flock":
		m.stub(name)
		m.sideEffect(name)
		fd, _ := args[0].(*Term).ConstInt64()
		how, ok := args[1].(*Term).ConstInt64()
		if !ok {
			m.unsupported("flock with symbolic how")
		}
		fo := e.fds[fd]
		if !fo.open {
			return m.newErr("flock: bad file descriptor", nil), true
		}
		if m.branch(e.fault("flock")) {
			return m.newErr("flock: error", nil), true
		}
		switch how &^ 4 {
		case 2: // LOCK_EX
			// another open descriptor holding the lock would block forever in this sequential model
			for _, o := range e.fds {
				if o != fo && o.open && o.locked && o.f == fo.f {
					if how&4 != 0 {
						return m.newErr("flock: EWOULDBLOCK", nil), true
					}
					if e.expectBlock {
						m.res.Reach["blocked"] = true
						panic(pathEnd{"done", "blocks as expected: " + fo.path + " is held by another open descriptor"})
					}
					panic(pathEnd{"deadlock", "flock(LOCK_EX) would block forever: " + fo.path + " is held by another open descriptor"})
				}
			}
			fo.locked = true
			e.event(fmt.Sprintf("flock fd%d LOCK_EX", fo.id))
		case 8: // LOCK_UN
			fo.locked = false
		case 1:
			e.event(fmt.Sprintf("flock fd%d LOCK_SH", fo.id))
		}
		if how&4 != 0 {
			e.event(fmt.Sprintf("flock fd%d LOCK_NB", fo.id))
		}
		return nilErr, true
	case "syscall.FcntlFlock":
		// POSIX record locks belong to the process, not to the open file description: they do not
		// make this descriptor hold the flock-style lock the property is about
		m.stub(name)
		e.event("fcntl lock (process-owned)")
		return nilErr, true
	case "(*os.File).Close":
		m.stub(name)
		m.sideEffect(name)
		fo := fileObjOf(args[0])
		if fo == nil {
			return m.newErr("invalid argument", nil), true
		}
		if !fo.open {
			return m.newErr("close "+fo.path+": file already closed", nil), true
		}
		if fo.std == "" {
			fo.open = false
			fo.locked = false
		}
		e.event(fmt.Sprintf("close fd%d", fo.id))
		return nilErr, true
	case "(*os.File).Sync":
		m.stub(name)
		fo := fileObjOf(args[0])
		if fo == nil || !fo.open {
			return m.newErr("sync: file already closed", nil), true
		}
		if m.branch(e.fault("fsync")) {
			return m.newErr("sync: error", nil), true
		}
		e.event(fmt.Sprintf("fsync fd%d", fo.id))
		return nilErr, true
	case "(*os.File).Stat":
		m.stub(name)
		fo := fileObjOf(args[0])
		if fo == nil || !fo.open {
			return TupleV{IfaceV{}, m.newErr("stat: file already closed", nil)}, true
		}
		if m.branch(e.fault("stat")) {
			return TupleV{IfaceV{}, m.newErr("stat: error", nil)}, true
		}
		return TupleV{IfaceV{t: fileInfoType, v: &FileInfoObj{size: int64(len(fo.f.data))}}, nilErr}, true
	case "(*os.File).Truncate":
		m.stub(name)
		m.sideEffect(name)
		fo := fileObjOf(args[0])
		sz, ok := args[1].(*Term).ConstInt64()
		if !ok {
			m.unsupported("Truncate with symbolic size")
		}
		if fo == nil || !fo.open {
			return m.newErr("truncate: file already closed", nil), true
		}
		if m.branch(e.fault("truncate")) {
			return m.newErr("truncate: error", nil), true
		}
		if fo.flags&3 == oRDONLY {
			return m.newErr("truncate: invalid argument (descriptor not open for writing)", nil), true
		}
		if sz < 0 || sz > 1<<20 {
			m.unsupported(fmt.Sprintf("Truncate to %d bytes", sz))
		}
		nd := make([]*Term, sz)
		for i := range nd {
			if i < len(fo.f.data) {
				nd[i] = fo.f.data[i]
			} else {
				nd[i] = c.IntI(SU8, 0)
			}
		}
		fo.f.data = nd
		fo.f.writes++
		e.event(fmt.Sprintf("truncate fd%d %d", fo.id, sz))
		return nilErr, true
	case "syscall.Fallocate":
		// mode 0: make sure [off, off+len) is allocated - grows the file, never shrinks it
		m.stub(name)
		m.sideEffect(name)
		fd, _ := args[0].(*Term).ConstInt64()
		mode, ok1 := args[1].(*Term).ConstInt64()
		off, ok2 := args[2].(*Term).ConstInt64()
		ln, ok3 := args[3].(*Term).ConstInt64()
		if !ok1 || !ok2 || !ok3 || mode != 0 || off < 0 || ln <= 0 || off+ln > 1<<20 {
			m.unsupported("syscall.Fallocate with these arguments")
		}
		if fd < 0 || int(fd) >= len(e.fds) || !e.fds[fd].open {
			return m.newErr("fallocate: bad file descriptor", nil), true
		}
		fo := e.fds[fd]
		if fo.flags&3 == oRDONLY {
			return m.newErr("fallocate: bad file descriptor (not open for writing)", nil), true
		}
		for int64(len(fo.f.data)) < off+ln {
			fo.f.data = append(fo.f.data, c.IntI(SU8, 0))
		}
		fo.f.writes++
		e.event(fmt.Sprintf("fallocate fd%d %d", fo.id, off+ln))
		return nilErr, true
	case "(*os.File).Name":
		fo := fileObjOf(args[0])
		return m.strConst(fo.path), true
	case "os.IsNotExist":
		m.stub(name)
		iv := args[0].(IfaceV)
		return c.Bool(m.isNotExist(iv)), true
	case "os.Remove":
		m.stub(name)
		path := m.mustStr(args[0])
		if f, ok := e.files[path]; ok && f.exists {
			f.exists = false
			f.writes++
			return nilErr, true
		}
		return m.pathError("remove", path, true), true
	case "os.MkdirAll":
		m.stub(name)
		path := m.mustStr(args[0])
		if strings.HasPrefix(path, "/vfs-nodir") {
			return m.pathError("mkdir", path, false), true
		}
		return nilErr, true
	// ---- filebuffer
	case "github.com/hnakamur/filebuffer.New":
		m.stub(name)
		fo := fileObjOf(args[0])
		sz, ok := args[1].(*Term).ConstInt64()
		if !ok {
			m.unsupported("filebuffer.New with symbolic size")
		}
		fb := &FileBufObj{fo: fo, size: int(sz)}
		return Pointer{loc: fb}, true
	case "(*github.com/hnakamur/filebuffer.FileBuffer).ReadAt":
		m.stub(name)
		fb := fileBufOf(args[0])
		if fb == nil {
			m.goPanic("nil FileBuffer")
		}
		p := args[1].(SliceV)
		off := args[2].(*Term)
		n, errv := m.fbAccess(fb, p, off, false)
		return TupleV{n, errv}, true
	case "(*github.com/hnakamur/filebuffer.FileBuffer).WriteAt":
		m.stub(name)
		m.sideEffect(name)
		fb := fileBufOf(args[0])
		if fb == nil {
			m.goPanic("nil FileBuffer")
		}
		p := args[1].(SliceV)
		off := args[2].(*Term)
		n, errv := m.fbAccess(fb, p, off, true)
		return TupleV{n, errv}, true
	case "(*github.com/hnakamur/filebuffer.FileBuffer).Flush":
		m.stub(name)
		m.sideEffect(name)
		fb := fileBufOf(args[0])
		if m.branch(e.fault("flush")) {
			return m.newErr("flush: error", nil), true
		}
		if fb.dirty {
			if !fb.fo.open {
				return m.newErr("flush: file already closed", nil), true
			}
			m.fbLoad(fb)
			if fb.size > len(fb.fo.f.data) {
				// page images beyond the end of the file are written out too: the file grows
				nd := make([]*Term, fb.size)
				copy(nd, fb.fo.f.data)
				fb.fo.f.data = nd
			}
			d := fb.fo.f.data
			for i := 0; i < fb.size && i < len(d); i++ {
				d[i] = fb.m[i]
			}
			fb.fo.f.writes++
			fb.dirty = false
			e.event(fmt.Sprintf("flush fd%d", fb.fo.id))
		}
		return nilErr, true
	}
	if v, ok := m.envIntrinsic3(name, fn, args); ok {
		return v, true
	}
	return m.envIntrinsic2(name, fn, args)
}

type FileInfoObj struct {
	size int64
	dir  bool
}

var fileInfoType = types.NewPointer(types.NewNamed(types.NewTypeName(0, nil, "intrinsicFileInfo", nil), types.NewStruct(nil, nil), nil))

func (m *Machine) isNotExist(iv IfaceV) bool {
	cur := iv
	for d := 0; d < 8 && cur.t != nil; d++ {
		eo, ok := cur.v.(*ErrObj)
		if !ok {
			// real *os.PathError built by repo code: look at its Err field
			if p, okp := cur.v.(Pointer); okp {
				if sl, oks := p.loc.(*StructLoc); oks && (strings.HasSuffix(cur.t.String(), "fs.PathError") || strings.HasSuffix(cur.t.String(), "os.PathError")) {
					if inner, oki := m.load(sl.fields[2]).(IfaceV); oki {
						cur = inner
						continue
					}
				}
			}
			if os.Getenv("VERIF_DEBUG_NOTEXIST") != "" {
				fmt.Fprintf(os.Stderr, "isNotExist: t=%v v=%T\n", cur.t, cur.v)
			}
			return false
		}
		if eo.notExist {
			return true
		}
		// os.IsNotExist does not unwrap fmt.Errorf wrappers (it uses underlyingError only)
		return false
	}
	return false
}

// fbLoad materialises the buffer image from disk (pages are read lazily under the lock; in
// this sequential model D cannot change between open and the first read).
func (m *Machine) fbLoad(fb *FileBufObj) {
	if fb.m != nil {
		return
	}
	fb.m = make([]*Term, fb.size)
	d := fb.fo.f.data
	for i := range fb.m {
		if i < len(d) {
			fb.m[i] = d[i]
		} else {
			fb.m[i] = m.ctx.IntI(SU8, 0)
		}
	}
}

// fbAccess implements ReadAt/WriteAt contract: error iff off<0 || off+len>size.
func (m *Machine) fbAccess(fb *FileBufObj, p SliceV, off *Term, write bool) (Value, Value) {
	c := m.ctx
	e := m.env
	off = c.Conv(off, SI64)
	ln := int64(p.len)
	bad := c.Or(c.Lt(off, c.IntI(SI64, 0)), c.Lt(c.IntI(SI64, int64(fb.size)), c.Arith(OAdd, off, c.IntI(SI64, ln))))
	if m.branch(bad) {
		return c.IntI(SI64, 0), m.newErr("offset and length out of bounds", nil)
	}
	if !write && fb.m == nil {
		// first page read through this descriptor
		if m.branch(e.fault("pread")) {
			return c.IntI(SI64, 0), m.newErr("preadv: error", nil)
		}
	}
	if !fb.fo.open {
		// reading through a closed descriptor: pages not yet buffered cannot be read
		if fb.m == nil {
			return c.IntI(SI64, 0), m.newErr("preadv: file already closed", nil)
		}
	}
	if fb.fo.reads == 0 {
		fb.fo.lockedBeforeFirstRead = fb.fo.locked
	}
	fb.fo.reads++
	m.fbLoad(fb)
	o := m.concretize(off, 0, fb.size-int(ln))
	if write {
		for i := 0; i < p.len; i++ {
			fb.m[o+i] = p.arr.elems[p.off+i].(*Cell).v.(*Term)
		}
		fb.dirty = true
		e.event(fmt.Sprintf("writeat fd%d off=%d len=%d", fb.fo.id, o, ln))
		// real WriteAt returns len of the *remaining* slice (0); callers ignore it
		return c.IntI(SI64, 0), IfaceV{}
	}
	for i := 0; i < p.len; i++ {
		m.store(p.arr.elems[p.off+i], fb.m[o+i])
	}
	return c.IntI(SI64, ln), IfaceV{}
}

func (m *Machine) invokeOpaque(iv IfaceV, method *types.Func, args []Value) (Value, bool) {
	switch o := iv.v.(type) {
	case *FileInfoObj:
		switch method.Name() {
		case "Size":
			return m.ctx.IntI(SI64, o.size), true
		case "IsDir":
			return m.ctx.Bool(o.dir), true
		}
		m.unsupported("FileInfo." + method.Name())
	}
	if v, ok := m.invokeOpaque3(iv, method, args); ok {
		return v, true
	}
	return m.invokeOpaque2(iv, method, args)
}
