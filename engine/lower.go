package main

// Two lowerings of the term IR to SMT-LIB2:
//   LInt: machine integers as mathematical Ints with interval-derived wrap ITEs (DESIGN §1.4 B)
//   LBV : bit-vectors (DESIGN §1.4 A)
// Floats use the FloatingPoint theory in both.

import (
	"fmt"
	"math/big"
	"strings"
)

type Lowering int

const (
	LInt Lowering = iota
	LBV
)

func (l Lowering) String() string {
	if l == LBV {
		return "bv"
	}
	return "int"
}

type Emitter struct {
	ctx    *Ctx
	mode   Lowering
	buf    strings.Builder // pending definitions not yet sent
	names  map[*Term]string
	log    []*Term
	marks  []int
	nfresh int
	nodes  int
	fpOf   map[*Term]string // bits variable -> name of its FP-sorted twin
}

func NewEmitter(mode Lowering) *Emitter {
	return &Emitter{mode: mode, names: map[*Term]string{}, fpOf: map[*Term]string{}}
}

func (e *Emitter) Push() { e.marks = append(e.marks, len(e.log)) }
func (e *Emitter) Pop() {
	m := e.marks[len(e.marks)-1]
	e.marks = e.marks[:len(e.marks)-1]
	for _, t := range e.log[m:] {
		delete(e.names, t)
	}
	e.log = e.log[:m]
}

func (e *Emitter) take() string {
	s := e.buf.String()
	e.buf.Reset()
	return s
}

func (e *Emitter) sortName(s Sort) string {
	switch s.K {
	case KBool:
		return "Bool"
	case KF32:
		return "(_ FloatingPoint 8 24)"
	case KF64:
		return "(_ FloatingPoint 11 53)"
	}
	if e.mode == LBV {
		return fmt.Sprintf("(_ BitVec %d)", s.W)
	}
	return "Int"
}

func intLit(v *big.Int) string {
	if v.Sign() < 0 {
		return "(- " + new(big.Int).Neg(v).String() + ")"
	}
	return v.String()
}

func bvLit(v *big.Int, w int) string {
	u := new(big.Int).Mod(v, pow2(w))
	return fmt.Sprintf("(_ bv%s %d)", u.String(), w)
}

func fpSpec(s Sort) (eb, sb int) {
	if s.K == KF32 {
		return 8, 24
	}
	return 11, 53
}

func smtName(n string) string {
	ok := true
	for _, r := range n {
		if !(r >= 'a' && r <= 'z' || r >= 'A' && r <= 'Z' || r >= '0' && r <= '9' || r == '_' || r == '.' || r == '$') {
			ok = false
		}
	}
	if ok {
		return "v." + n
	}
	return "|v." + strings.ReplaceAll(n, "|", "!") + "|"
}

// Name returns an SMT expression (a literal or a defined name) denoting t, emitting any
// needed declarations/definitions into the pending buffer.
func (e *Emitter) Name(t *Term) string {
	if n, ok := e.names[t]; ok {
		return n
	}
	var n string
	switch t.Op {
	case OConst:
		return e.constLit(t)
	case OVar:
		n = smtName(t.Name)
		fmt.Fprintf(&e.buf, "(declare-const %s %s)\n", n, e.sortName(t.Sort))
		if e.mode == LInt && t.Sort.K == KInt {
			fmt.Fprintf(&e.buf, "(assert (and (<= %s %s) (<= %s %s)))\n", intLit(t.Sort.Min()), n, n, intLit(t.Sort.Max()))
		}
		if fn, ok := e.fpOf[t]; ok {
			e.linkFP(t, n, fn)
		}
	case OFBits:
		f := e.Name(t.Args[0])
		e.nfresh++
		n = fmt.Sprintf("fb%d_%d", t.id, e.nfresh)
		eb, sb := fpSpec(t.Args[0].Sort)
		if e.mode == LBV {
			fmt.Fprintf(&e.buf, "(declare-const %s (_ BitVec %d))\n", n, t.Sort.W)
			fmt.Fprintf(&e.buf, "(assert (= ((_ to_fp %d %d) %s) %s))\n", eb, sb, n, f)
		} else {
			fmt.Fprintf(&e.buf, "(declare-const %s Int)\n", n)
			fmt.Fprintf(&e.buf, "(assert (and (<= 0 %s) (<= %s %s)))\n", n, n, intLit(t.Sort.Max()))
			fmt.Fprintf(&e.buf, "(assert (= ((_ to_fp %d %d) ((_ int2bv %d) %s)) %s))\n", eb, sb, t.Sort.W, n, f)
		}
	default:
		if t.Op == OFFromBits && t.Args[0].Op == OVar {
			// float input: an FP-sorted constant; tied to the integer bit pattern only if the
			// pattern itself is ever needed by the solver
			v := t.Args[0]
			fn, ok := e.fpOf[v]
			if !ok {
				fn = "f" + smtName(v.Name)
				if strings.HasPrefix(smtName(v.Name), "|") {
					fn = "|f." + strings.Trim(smtName(v.Name), "|") + "|"
				}
				fmt.Fprintf(&e.buf, "(declare-const %s %s)\n", fn, e.sortName(t.Sort))
				e.fpOf[v] = fn
				if vn, ok := e.names[v]; ok {
					e.linkFP(v, vn, fn)
				}
			}
			e.nodes++
			e.names[t] = fn
			e.log = append(e.log, t)
			return fn
		}
		var expr string
		if t.Sort.K == KInt {
			if e.mode == LBV {
				expr = e.bvExpr(t)
			} else {
				expr = e.intExpr(t)
			}
		} else {
			expr = e.otherExpr(t)
		}
		n = fmt.Sprintf("t%d", t.id)
		fmt.Fprintf(&e.buf, "(define-fun %s () %s %s)\n", n, e.sortName(t.Sort), expr)
	}
	e.nodes++
	e.names[t] = n
	e.log = append(e.log, t)
	return n
}

func (e *Emitter) linkFP(v *Term, vn, fn string) {
	eb, sb := 11, 53
	if v.Sort.W == 32 {
		eb, sb = 8, 24
	}
	if e.mode == LBV {
		fmt.Fprintf(&e.buf, "(assert (= ((_ to_fp %d %d) %s) %s))\n", eb, sb, vn, fn)
	} else {
		fmt.Fprintf(&e.buf, "(assert (= ((_ to_fp %d %d) ((_ int2bv %d) %s)) %s))\n", eb, sb, v.Sort.W, vn, fn)
	}
}

func (e *Emitter) constLit(t *Term) string {
	switch t.Sort.K {
	case KBool:
		if t.V.Sign() != 0 {
			return "true"
		}
		return "false"
	case KF32:
		return fmt.Sprintf("((_ to_fp 8 24) %s)", bvLit(t.V, 32))
	case KF64:
		return fmt.Sprintf("((_ to_fp 11 53) %s)", bvLit(t.V, 64))
	}
	if e.mode == LBV {
		return bvLit(t.V, t.Sort.W)
	}
	return intLit(t.V)
}

// wrapExpr reduces the Int expression raw (known to lie in [lo,hi]) into sort s.
func wrapExpr(raw string, lo, hi *big.Int, s Sort) string {
	min, max := s.Min(), s.Max()
	if lo.Cmp(min) >= 0 && hi.Cmp(max) <= 0 {
		return raw
	}
	m := pow2(s.W)
	// k ranges: value v maps to v - k*m where k = floor((v-min)/m)
	klo := new(big.Int).Div(new(big.Int).Sub(lo, min), m) // Euclidean/floor since m>0
	khi := new(big.Int).Div(new(big.Int).Sub(hi, min), m)
	cnt := new(big.Int).Sub(khi, klo)
	if cnt.IsInt64() && cnt.Int64() <= 6 {
		// ite chain from klo..khi
		var build func(k *big.Int) string
		build = func(k *big.Int) string {
			adj := new(big.Int).Mul(k, m)
			var val string
			if adj.Sign() == 0 {
				val = raw
			} else {
				val = fmt.Sprintf("(- %s %s)", raw, intLit(adj))
			}
			if k.Cmp(khi) == 0 {
				return val
			}
			// upper bound (exclusive) for this k: min + (k+1)*m
			ub := new(big.Int).Add(min, new(big.Int).Mul(new(big.Int).Add(k, bigOne), m))
			return fmt.Sprintf("(ite (< %s %s) %s %s)", raw, intLit(ub), val, build(new(big.Int).Add(k, bigOne)))
		}
		return build(klo)
	}
	if s.Signed {
		return fmt.Sprintf("(- (mod (+ %s %s) %s) %s)", raw, intLit(pow2(s.W-1)), intLit(m), intLit(pow2(s.W-1)))
	}
	return fmt.Sprintf("(mod %s %s)", raw, intLit(m))
}

func (e *Emitter) lo(t *Term) *big.Int {
	if e.ctx != nil {
		return e.ctx.IV(t).Lo
	}
	return t.ILo
}
func (e *Emitter) hi(t *Term) *big.Int {
	if e.ctx != nil {
		return e.ctx.IV(t).Hi
	}
	return t.IHi
}

func (e *Emitter) rawIv(op Op, a, b *Term) (*big.Int, *big.Int) {
	alo, ahi := e.lo(a), e.hi(a)
	switch op {
	case ONeg:
		return new(big.Int).Neg(ahi), new(big.Int).Neg(alo)
	}
	blo, bhi := e.lo(b), e.hi(b)
	switch op {
	case OAdd:
		return new(big.Int).Add(alo, blo), new(big.Int).Add(ahi, bhi)
	case OSub:
		return new(big.Int).Sub(alo, bhi), new(big.Int).Sub(ahi, blo)
	case OMul:
		p1 := new(big.Int).Mul(alo, blo)
		p2 := new(big.Int).Mul(alo, bhi)
		p3 := new(big.Int).Mul(ahi, blo)
		p4 := new(big.Int).Mul(ahi, bhi)
		return minBig(p1, p2, p3, p4), maxBig(p1, p2, p3, p4)
	}
	panic("rawIv")
}

func (e *Emitter) args(t *Term) []string {
	out := make([]string, len(t.Args))
	for i, a := range t.Args {
		out[i] = e.Name(a)
	}
	return out
}

func absBig(x *big.Int) *big.Int { return new(big.Int).Abs(x) }

// toU: Int expression of the unsigned representative of a (mod 2^w)
func (e *Emitter) toU(a *Term) string {
	n := e.Name(a)
	if !a.Sort.Signed || e.lo(a).Sign() >= 0 {
		return n
	}
	if e.hi(a).Sign() < 0 {
		return fmt.Sprintf("(+ %s %s)", n, intLit(pow2(a.Sort.W)))
	}
	return fmt.Sprintf("(ite (< %s 0) (+ %s %s) %s)", n, n, intLit(pow2(a.Sort.W)), n)
}

func (e *Emitter) viaBV(t *Term, bvop string) string {
	w := t.Sort.W
	a := fmt.Sprintf("((_ int2bv %d) %s)", w, e.Name(t.Args[0]))
	var r string
	if len(t.Args) == 2 {
		b := t.Args[1]
		bs := e.Name(b)
		bexp := fmt.Sprintf("((_ int2bv %d) %s)", w, bs)
		r = fmt.Sprintf("(bv2nat (%s %s %s))", bvop, a, bexp)
	} else {
		r = fmt.Sprintf("(bv2nat (%s %s))", bvop, a)
	}
	return wrapExpr(r, big.NewInt(0), USort(w).Max(), t.Sort)
}

func (e *Emitter) intExpr(t *Term) string {
	s := t.Sort
	switch t.Op {
	case OAdd, OSub, OMul:
		a := e.args(t)
		lo, hi := e.rawIv(t.Op, t.Args[0], t.Args[1])
		op := map[Op]string{OAdd: "+", OSub: "-", OMul: "*"}[t.Op]
		return wrapExpr(fmt.Sprintf("(%s %s %s)", op, a[0], a[1]), lo, hi, s)
	case ONeg:
		a := e.args(t)
		lo, hi := e.rawIv(ONeg, t.Args[0], nil)
		return wrapExpr(fmt.Sprintf("(- %s)", a[0]), lo, hi, s)
	case ODiv:
		a, b := t.Args[0], t.Args[1]
		an, bn := e.Name(a), e.Name(b)
		var raw string
		apos, aneg := e.lo(a).Sign() >= 0, e.hi(a).Sign() <= 0
		bpos, bneg := e.lo(b).Sign() >= 0, e.hi(b).Sign() <= 0
		q := func(x, y string) string { return fmt.Sprintf("(div %s %s)", x, y) }
		neg := func(x string) string { return fmt.Sprintf("(- %s)", x) }
		bsel := func(x string, xneg bool) string {
			// quotient of |x| by b with sign handling for b
			ifpos := q(x, bn)
			ifneg := neg(q(x, neg(bn)))
			if xneg { // x already stands for |a| where a<0: result sign flips
				ifpos, ifneg = neg(q(x, bn)), q(x, neg(bn))
			}
			switch {
			case bpos:
				return ifpos
			case bneg:
				return ifneg
			}
			return fmt.Sprintf("(ite (> %s 0) %s %s)", bn, ifpos, ifneg)
		}
		switch {
		case apos:
			raw = bsel(an, false)
		case aneg:
			raw = bsel(neg(an), true)
		default:
			raw = fmt.Sprintf("(ite (>= %s 0) %s %s)", an, bsel(an, false), bsel(neg(an), true))
		}
		m := maxBig(absBig(e.lo(a)), absBig(e.hi(a)))
		return wrapExpr(raw, new(big.Int).Neg(m), m, s)
	case ORem:
		a, b := t.Args[0], t.Args[1]
		an, bn := e.Name(a), e.Name(b)
		babs := bn
		if e.lo(b).Sign() < 0 {
			babs = fmt.Sprintf("(abs %s)", bn)
		}
		switch {
		case e.lo(a).Sign() >= 0:
			return fmt.Sprintf("(mod %s %s)", an, babs)
		case e.hi(a).Sign() <= 0:
			return fmt.Sprintf("(- (mod (- %s) %s))", an, babs)
		}
		return fmt.Sprintf("(ite (>= %s 0) (mod %s %s) (- (mod (- %s) %s)))", an, an, babs, an, babs)
	case OConv:
		a := t.Args[0]
		return wrapExpr(e.Name(a), e.lo(a), e.hi(a), s)
	case OExtract:
		a := t.Args[0]
		x := e.toU(a)
		if t.Lo > 0 {
			x = fmt.Sprintf("(div %s %s)", x, intLit(pow2(t.Lo)))
		}
		// upper bound of a as unsigned
		ahi := e.hi(a)
		if a.Sort.Signed && e.lo(a).Sign() < 0 {
			ahi = USort(a.Sort.W).Max()
		}
		if ahi.Cmp(pow2(t.Hi+1)) >= 0 {
			x = fmt.Sprintf("(mod %s %s)", x, intLit(pow2(t.Hi-t.Lo+1)))
		}
		return x
	case OConcat:
		var parts []string
		shift := s.W
		for _, a := range t.Args {
			shift -= a.Sort.W
			if a.IsConst() && a.V.Sign() == 0 {
				continue
			}
			n := e.Name(a)
			if shift > 0 {
				parts = append(parts, fmt.Sprintf("(* %s %s)", n, intLit(pow2(shift))))
			} else {
				parts = append(parts, n)
			}
		}
		if len(parts) == 0 {
			return "0"
		}
		if len(parts) == 1 {
			return parts[0]
		}
		return "(+ " + strings.Join(parts, " ") + ")"
	case OIte:
		a := e.args(t)
		return fmt.Sprintf("(ite %s %s %s)", a[0], a[1], a[2])
	case OShl, OShr:
		a, b := t.Args[0], t.Args[1]
		if bc, ok := b.ConstInt64(); ok && bc < 128 {
			an := e.Name(a)
			if t.Op == OShl {
				lo := new(big.Int).Lsh(e.lo(a), uint(bc))
				hi := new(big.Int).Lsh(e.hi(a), uint(bc))
				return wrapExpr(fmt.Sprintf("(* %s %s)", an, intLit(pow2(int(bc)))), lo, hi, s)
			}
			return fmt.Sprintf("(div %s %s)", an, intLit(pow2(int(bc)))) // floor division == arithmetic shift
		}
		// symbolic amount: through bit-vectors, amount clamped to width
		w := s.W
		av := fmt.Sprintf("((_ int2bv %d) %s)", w, e.Name(a))
		bn := e.Name(b)
		amt := fmt.Sprintf("((_ int2bv %d) (ite (>= %s %d) %d %s))", w, bn, w, w, bn)
		op := "bvshl"
		if t.Op == OShr {
			op = "bvlshr"
			if s.Signed {
				op = "bvashr"
			}
		}
		r := fmt.Sprintf("(bv2nat (%s %s %s))", op, av, amt)
		return wrapExpr(r, big.NewInt(0), USort(w).Max(), s)
	case OAnd:
		// and with low mask on possibly-signed operand
		if b := t.Args[1]; b.IsConst() {
			if k, ok := isLowMask(new(big.Int).Mod(b.V, pow2(s.W))); ok && k < s.W {
				return fmt.Sprintf("(mod %s %s)", e.Name(t.Args[0]), intLit(pow2(k)))
			}
		}
		return e.viaBV(t, "bvand")
	case OOr:
		return e.viaBV(t, "bvor")
	case OXor:
		return e.viaBV(t, "bvxor")
	case OBitNot:
		// ^x = -x-1 (signed) ; 2^w-1-x (unsigned)
		a := e.Name(t.Args[0])
		if s.Signed {
			return fmt.Sprintf("(- (- %s) 1)", a)
		}
		return fmt.Sprintf("(- %s %s)", intLit(s.Max()), a)
	case OFToI:
		f := e.Name(t.Args[0])
		var r string
		if s.Signed {
			r = fmt.Sprintf("(bv2nat ((_ fp.to_sbv %d) RTZ %s))", s.W, f)
		} else {
			r = fmt.Sprintf("(bv2nat ((_ fp.to_ubv %d) RTZ %s))", s.W, f)
		}
		return wrapExpr(r, big.NewInt(0), USort(s.W).Max(), s)
	}
	panic("intExpr: unsupported op " + opNames[t.Op])
}

func (e *Emitter) bvConv(a *Term, s Sort) string {
	n := e.Name(a)
	fw, tw := a.Sort.W, s.W
	switch {
	case tw == fw:
		return n
	case tw < fw:
		return fmt.Sprintf("((_ extract %d 0) %s)", tw-1, n)
	case a.Sort.Signed:
		return fmt.Sprintf("((_ sign_extend %d) %s)", tw-fw, n)
	}
	return fmt.Sprintf("((_ zero_extend %d) %s)", tw-fw, n)
}

func (e *Emitter) bvExpr(t *Term) string {
	s := t.Sort
	bin := func(op string) string {
		a := e.args(t)
		return fmt.Sprintf("(%s %s %s)", op, a[0], a[1])
	}
	switch t.Op {
	case OAdd:
		return bin("bvadd")
	case OSub:
		return bin("bvsub")
	case OMul:
		return bin("bvmul")
	case ONeg:
		return fmt.Sprintf("(bvneg %s)", e.Name(t.Args[0]))
	case ODiv:
		if s.Signed {
			return bin("bvsdiv")
		}
		return bin("bvudiv")
	case ORem:
		if s.Signed {
			return bin("bvsrem")
		}
		return bin("bvurem")
	case OAnd:
		return bin("bvand")
	case OOr:
		return bin("bvor")
	case OXor:
		return bin("bvxor")
	case OBitNot:
		return fmt.Sprintf("(bvnot %s)", e.Name(t.Args[0]))
	case OConv:
		return e.bvConv(t.Args[0], s)
	case OExtract:
		return fmt.Sprintf("((_ extract %d %d) %s)", t.Hi, t.Lo, e.Name(t.Args[0]))
	case OConcat:
		return "(concat " + strings.Join(e.args(t), " ") + ")"
	case OIte:
		a := e.args(t)
		return fmt.Sprintf("(ite %s %s %s)", a[0], a[1], a[2])
	case OShl, OShr:
		a := e.Name(t.Args[0])
		b := t.Args[1]
		// amount converted (saturating) to width of a
		var amt string
		if b.Sort.W == s.W {
			amt = e.Name(b)
		} else if b.Sort.W < s.W {
			amt = fmt.Sprintf("((_ zero_extend %d) %s)", s.W-b.Sort.W, e.Name(b))
		} else {
			bn := e.Name(b)
			amt = fmt.Sprintf("(ite (bvuge %s %s) %s ((_ extract %d 0) %s))", bn, bvLit(big.NewInt(int64(s.W)), b.Sort.W), bvLit(big.NewInt(int64(s.W)), s.W), s.W-1, bn)
		}
		op := "bvshl"
		if t.Op == OShr {
			op = "bvlshr"
			if s.Signed {
				op = "bvashr"
			}
		}
		return fmt.Sprintf("(%s %s %s)", op, a, amt)
	case OFToI:
		f := e.Name(t.Args[0])
		if s.Signed {
			return fmt.Sprintf("((_ fp.to_sbv %d) RTZ %s)", s.W, f)
		}
		return fmt.Sprintf("((_ fp.to_ubv %d) RTZ %s)", s.W, f)
	}
	panic("bvExpr: unsupported op " + opNames[t.Op])
}

func (e *Emitter) otherExpr(t *Term) string {
	bin := func(op string) string {
		a := e.args(t)
		return fmt.Sprintf("(%s %s %s)", op, a[0], a[1])
	}
	switch t.Op {
	case OEq:
		return bin("=")
	case OLt, OLe:
		if e.mode == LInt {
			if t.Op == OLt {
				return bin("<")
			}
			return bin("<=")
		}
		sg := t.Args[0].Sort.Signed
		switch {
		case t.Op == OLt && sg:
			return bin("bvslt")
		case t.Op == OLt:
			return bin("bvult")
		case sg:
			return bin("bvsle")
		}
		return bin("bvule")
	case OBAnd:
		return bin("and")
	case OBOr:
		return bin("or")
	case OBNot:
		return fmt.Sprintf("(not %s)", e.Name(t.Args[0]))
	case OIte:
		a := e.args(t)
		return fmt.Sprintf("(ite %s %s %s)", a[0], a[1], a[2])
	case OFAdd:
		a := e.args(t)
		return fmt.Sprintf("(fp.add RNE %s %s)", a[0], a[1])
	case OFSub:
		a := e.args(t)
		return fmt.Sprintf("(fp.sub RNE %s %s)", a[0], a[1])
	case OFMul:
		a := e.args(t)
		return fmt.Sprintf("(fp.mul RNE %s %s)", a[0], a[1])
	case OFDiv:
		a := e.args(t)
		return fmt.Sprintf("(fp.div RNE %s %s)", a[0], a[1])
	case OFNeg:
		return fmt.Sprintf("(fp.neg %s)", e.Name(t.Args[0]))
	case OFEq:
		return bin("fp.eq")
	case OFLt:
		return bin("fp.lt")
	case OFLe:
		return bin("fp.leq")
	case OFIsNaN:
		return fmt.Sprintf("(fp.isNaN %s)", e.Name(t.Args[0]))
	case OFFromBits:
		eb, sb := fpSpec(t.Sort)
		a := t.Args[0]
		if e.mode == LBV {
			return fmt.Sprintf("((_ to_fp %d %d) %s)", eb, sb, e.Name(a))
		}
		return fmt.Sprintf("((_ to_fp %d %d) ((_ int2bv %d) %s))", eb, sb, a.Sort.W, e.Name(a))
	case OFConv:
		eb, sb := fpSpec(t.Sort)
		return fmt.Sprintf("((_ to_fp %d %d) RNE %s)", eb, sb, e.Name(t.Args[0]))
	case OIToF:
		eb, sb := fpSpec(t.Sort)
		a := t.Args[0]
		var bv string
		if e.mode == LBV {
			bv = e.Name(a)
		} else {
			bv = fmt.Sprintf("((_ int2bv %d) %s)", a.Sort.W, e.Name(a))
		}
		if a.Sort.Signed {
			return fmt.Sprintf("((_ to_fp %d %d) RNE %s)", eb, sb, bv)
		}
		return fmt.Sprintf("((_ to_fp_unsigned %d %d) RNE %s)", eb, sb, bv)
	}
	panic("otherExpr: unsupported op " + opNames[t.Op])
}
